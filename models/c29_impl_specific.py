"""Meta-model for verification: a concrete class whose Python code is given as an implementation-specific snippet."""
from typing import List, Optional

from icontract import DBC

from aas_core_meta.marker import implementation_specific


@implementation_specific
class Blob(DBC):
    """Represent an opaque payload handled by hand-written code."""

    content: str
    """Content"""

    def __init__(self, content: str) -> None:
        self.content = content


class Item(DBC):
    """Represent an item."""

    name: str
    """Name"""

    blob: Optional[Blob]
    """Blob"""

    def __init__(self, name: str, blob: Optional[Blob] = None) -> None:
        self.name = name
        self.blob = blob


class Holder(DBC):
    """Represent a holder."""

    items: List[Item]
    """Items"""

    first: Blob
    """First"""

    def __init__(self, items: List[Item], first: Blob) -> None:
        self.items = items
        self.first = first


__version__ = "V0"
__xml_namespace__ = "https://example.invalid/verif"
