"""Meta-model for verification: length constraints on byte arrays."""
from typing import List, Optional

from icontract import invariant, DBC


@invariant(lambda self: len(self) <= 2, "Short blob has at most two bytes")
class Short_blob(bytearray, DBC):
    """Represent a short blob."""


@invariant(lambda self: len(self.data) >= 1, "Data has at least one byte")
@invariant(lambda self: len(self.data) <= 2, "Data has at most two bytes")
class Something(DBC):
    """Represent something."""

    data: bytearray
    """Data"""

    blob: Optional[Short_blob]
    """Blob"""

    def __init__(self, data: bytearray, blob: Optional[Short_blob] = None) -> None:
        self.data = data
        self.blob = blob


__version__ = "V0"
__xml_namespace__ = "https://example.invalid/verif"
