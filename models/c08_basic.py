"""Meta-model for verification: invariant forms."""
from enum import Enum
from re import match
from typing import List, Optional, Set

from icontract import invariant, DBC

from aas_core_meta.marker import verification, constant_set, abstract, serialization


@verification
def matches_abc(text: str) -> bool:
    """Check that :paramref:`text` is an ``a`` followed by ``b`` or ``c``."""
    pattern = f"^a[b-c]*$"
    return match(pattern, text) is not None


@verification
def matches_composed(text: str) -> bool:
    """Check that :paramref:`text` matches a composed pattern."""
    digit = "[0-9]"
    pattern = f"^{digit}{digit}?(x|y)$"
    return match(pattern, text) is not None


@invariant(lambda self: len(self) >= 1, "Token has at least one character")
@invariant(lambda self: matches_abc(self), "Token matches abc")
class Token(str, DBC):
    """Represent a token."""


class Color(Enum):
    """Represent a color."""

    Red = "RED"
    Green = "GREEN"
    Blue = "BLUE"


Warm_colors: Set[Color] = constant_set(
    values=[Color.Red],
    description="Warm colors.",
)

Non_cold_colors: Set[Color] = constant_set(
    values=[Color.Red, Color.Green],
    description="Colors which are not cold.",
    superset_of=[Warm_colors],
)


@invariant(lambda self: len(self.text) <= 1, "Leaf text at most one character")
class Leaf(DBC):
    """Represent a leaf."""

    text: str
    """Text of the leaf"""

    def __init__(self, text: str) -> None:
        self.text = text


@invariant(
    lambda self: not (self.name is not None) or len(self.name) <= 2,
    "Name has at most two characters"
)
@invariant(
    lambda self: (self.count > 0 and self.count < 5) or self.flag,
    "Count is in range or the flag is set"
)
@invariant(
    lambda self: self.color in Non_cold_colors,
    "Color is not cold"
)
@invariant(
    lambda self: all(len(item) > 0 for item in self.items),
    "Items are non-empty"
)
@invariant(
    lambda self: len(self.items) == 0 or any(item == "a" for item in self.items),
    "Some item is an a if there are items"
)
@invariant(
    lambda self: all(self.items[i] != "z" for i in range(0, len(self.items))),
    "No item is a z"
)
@invariant(
    lambda self: not (self.code is not None) or matches_composed(self.code),
    "Code matches the composed pattern"
)
@invariant(
    lambda self: not (self.leaf is not None) or self.leaf.text != "q",
    "Leaf text is not q"
)
@invariant(
    lambda self: not (self.count >= 3) or self.flag,
    "Flag is set if count is at least three"
)
class Something(DBC):
    """Represent something."""

    count: int
    """Count"""

    flag: bool
    """Flag"""

    color: Color
    """Color"""

    items: List[str]
    """Items"""

    token: Token
    """Token"""

    name: Optional[str]
    """Name"""

    code: Optional[str]
    """Code"""

    leaf: Optional[Leaf]
    """Leaf"""

    def __init__(
        self,
        count: int,
        flag: bool,
        color: Color,
        items: List[str],
        token: Token,
        name: Optional[str] = None,
        code: Optional[str] = None,
        leaf: Optional[Leaf] = None,
    ) -> None:
        self.count = count
        self.flag = flag
        self.color = color
        self.items = items
        self.token = token
        self.name = name
        self.code = code
        self.leaf = leaf


@invariant(lambda self: 2 >= len(self.text), "Text has at most two characters")
@invariant(lambda self: 1 <= len(self.text), "Text has at least one character")
@invariant(lambda self: 2 >= len(self.words), "There are at most two words")
@invariant(lambda self: 2 > len(self.tail), "There is at most one item in the tail")
class Mirrored(DBC):
    """Represent length constraints written with the constant on the left."""

    text: str
    """Text"""

    words: List[str]
    """Words"""

    tail: List[str]
    """Tail"""

    def __init__(self, text: str, words: List[str], tail: List[str]) -> None:
        self.text = text
        self.words = words
        self.tail = tail


@invariant(lambda self: len(self.blank) <= 0, "Blank is empty")
@invariant(lambda self: 1 > len(self.nothing), "Nothing is empty")
@invariant(lambda self: len(self.vacant) == 0, "Vacant is empty")
class Empty_only(DBC):
    """Represent values which must stay empty (upper bounds of zero)."""

    blank: str
    """Blank"""

    nothing: List[str]
    """Nothing"""

    vacant: List[str]
    """Vacant"""

    def __init__(self, blank: str, nothing: List[str], vacant: List[str]) -> None:
        self.blank = blank
        self.nothing = nothing
        self.vacant = vacant


__version__ = "V0"
__xml_namespace__ = "https://example.invalid/verif"
