"""Meta-model for verification: constants, constant sets and enumerations."""
from enum import Enum
from typing import List, Optional, Set

from icontract import invariant, DBC

from aas_core_meta.marker import constant_set


class Mark(Enum):
    """Represent a mark."""

    Plain = "plain"
    With_space = "with space"
    With_quote = "it's \"quoted\""
    With_backslash = "back\\slash"
    Empty = ""
    Astral = "\U0001F600"
    Upper = "PLAIN"
    Newline = "line\nbreak"
    Line_separator = "first\u2028second"
    File_separator = "a\x1cb\x85c"


class Level(Enum):
    """Represent a level."""

    Low = "LOW"
    High = "HIGH"


Some_text: str = constant_str(
    value="it's \"quoted\" \\ and \U0001F600 and \x00 nul",
    description="Some text.",
)

Some_count: int = constant_int(value=9007199254740993, description="Some count.")

Some_flag: bool = constant_bool(value=False, description="Some flag.")

Some_ratio: float = constant_float(value=0.1, description="Some ratio.")

Basic_marks: Set[Mark] = constant_set(
    values=[Mark.Plain, Mark.Empty],
    description="Basic marks.",
)

More_marks: Set[Mark] = constant_set(
    values=[Mark.Plain, Mark.Empty, Mark.With_quote],
    description="More marks.",
    superset_of=[Basic_marks],
)

Most_marks: Set[Mark] = constant_set(
    values=[Mark.Plain, Mark.Empty, Mark.With_quote, Mark.Astral, Mark.Newline],
    description="Most marks.",
    superset_of=[More_marks],
)

Small_words: Set[str] = constant_set(
    values=["a", "it's", "\\"],
    description="Small words.",
)

Words: Set[str] = constant_set(
    values=["a", "it's", "\\", "", "\U0001F600", "A"],
    description="Words.",
    superset_of=[Small_words],
)

Flags: Set[bool] = constant_set(
    values=[True, False],
    description="Flags.",
)

Only_false: Set[bool] = constant_set(
    values=[False],
    description="Only false.",
)

Ratios: Set[float] = constant_set(
    values=[0.5, 1.5],
    description="Ratios.",
)

Separated_words: Set[str] = constant_set(
    values=["first\u2028second", "a\x1cb", "c\x85d", "e\u2029f"],
    description="Words with exotic line separators.",
)

Numbers: Set[int] = constant_set(
    values=[0, 1, 9007199254740993],
    description="Numbers.",
)


@invariant(lambda self: self.mark in Most_marks, "Mark is among most marks")
class Something(DBC):
    """Represent something."""

    mark: Mark
    """Mark"""

    level: Optional[Level]
    """Level"""

    def __init__(self, mark: Mark, level: Optional[Level] = None) -> None:
        self.mark = mark
        self.level = level


__version__ = "V0"
__xml_namespace__ = "https://example.invalid/verif"
