"""Meta-model for verification."""
from typing import List, Optional, Set

from icontract import invariant, DBC

from aas_core_meta.marker import abstract, serialization, verification, constant_set


@verification
def matches_word(text: str) -> bool:
    """Check that :paramref:`text` is a word."""
    pattern = f"^[a-z]+$"
    return match(pattern, text) is not None


Allowed: Set[str] = constant_set(
    values=["ab", "abc", "abcd"],
    description="Allowed words",
)


@abstract
@serialization(with_model_type=True)
@invariant(lambda self: matches_word(self.x), "X is a word")
@invariant(lambda self: len(self.x) >= 1, "X is not empty")
class Root(DBC):
    """Represent the root."""

    x: str
    """X"""

    def __init__(self, x: str) -> None:
        self.x = x


@abstract
@invariant(lambda self: len(self.x) <= 5, "X is at most 5 characters long")
class A(Root):
    """Represent A."""

    def __init__(self, x: str) -> None:
        Root.__init__(self, x)


@abstract
@invariant(lambda self: self.x in Allowed, "X is allowed")
class B(Root):
    """Represent B."""

    def __init__(self, x: str) -> None:
        Root.__init__(self, x)


@invariant(lambda self: len(self.x) <= 3, "X is at most 3 characters long")
class C(A, B):
    """Represent C."""

    def __init__(self, x: str) -> None:
        A.__init__(self, x)


class D(A, B):
    """Represent D."""

    def __init__(self, x: str) -> None:
        A.__init__(self, x)


__version__ = "V0"
__xml_namespace__ = "https://example.invalid/verif"
