"""Meta-model for verification: a generator with a filter (must either be rejected or be translated faithfully)."""
from typing import List

from icontract import invariant, DBC


@invariant(
    lambda self: all(len(item) > 1 for item in self.items if item != "b"),
    "Items are longer than one character unless they are b"
)
class Something(DBC):
    """Represent something."""

    items: List[str]
    """Items"""

    def __init__(self, items: List[str]) -> None:
        self.items = items


__version__ = "V0"
__xml_namespace__ = "https://example.invalid/verif"
