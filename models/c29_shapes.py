"""Meta-model for verification: shapes of list properties (optional / required lists of every kind of item)."""
from enum import Enum
from typing import List, Optional

from icontract import invariant, DBC


@invariant(lambda self: len(self) >= 1, "Blob is not empty")
class Non_empty_blob(bytearray, DBC):
    """Represent a non-empty blob."""


@invariant(lambda self: len(self) <= 2, "Short name has at most two characters")
class Short_name(str, DBC):
    """Represent a short name."""


class Mode(Enum):
    """Represent a mode."""

    On = "ON"
    Off = "OFF"


class Item(DBC):
    """Represent an item."""

    label: str
    """Label"""

    def __init__(self, label: str) -> None:
        self.label = label


class Shapes(DBC):
    """Represent list properties of many shapes."""

    blobs: List[Non_empty_blob]
    """Blobs"""

    flags: List[bool]
    """Flags"""

    names: Optional[List[str]]
    """Names"""

    numbers: Optional[List[int]]
    """Numbers"""

    raw_blobs: Optional[List[bytearray]]
    """Raw blobs"""

    short_names: Optional[List[Short_name]]
    """Short names"""

    modes: Optional[List[Mode]]
    """Modes"""

    items: Optional[List[Item]]
    """Items"""

    def __init__(
        self,
        blobs: List[Non_empty_blob],
        flags: List[bool],
        names: Optional[List[str]] = None,
        numbers: Optional[List[int]] = None,
        raw_blobs: Optional[List[bytearray]] = None,
        short_names: Optional[List[Short_name]] = None,
        modes: Optional[List[Mode]] = None,
        items: Optional[List[Item]] = None,
    ) -> None:
        self.blobs = blobs
        self.flags = flags
        self.names = names
        self.numbers = numbers
        self.raw_blobs = raw_blobs
        self.short_names = short_names
        self.modes = modes
        self.items = items


__version__ = "V0"
__xml_namespace__ = "https://example.invalid/verif"
