"""Meta-model for verification: constrained primitives declared BEFORE their ancestors (any order is admitted)."""
from typing import List, Optional

from icontract import invariant, DBC


@invariant(lambda self: len(self) <= 2, "Short code has at most two characters")
class Short_code(Code):
    """Represent a short code."""


class Code(Non_empty_text):
    """Represent a code."""


@invariant(lambda self: len(self) >= 1, "Text is not empty")
class Non_empty_text(str, DBC):
    """Represent a non-empty text."""


class Something(DBC):
    """Represent something which uses the most derived primitive."""

    code: Short_code
    """Code"""

    codes: List[Short_code]
    """Codes"""

    def __init__(self, code: Short_code, codes: List[Short_code]) -> None:
        self.code = code
        self.codes = codes


__version__ = "V0"
__xml_namespace__ = "https://example.invalid/verif"
