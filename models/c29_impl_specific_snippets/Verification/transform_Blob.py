def transform_blob(
        self,
        that: aas_types.Blob
) -> Iterator[Error]:
    return
    yield
