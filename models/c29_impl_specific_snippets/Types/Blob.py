class Blob(Class):
    """Represent an opaque payload handled by hand-written code."""

    content: str

    def descend_once(self) -> Iterator[Class]:
        return
        yield

    def descend(self) -> Iterator[Class]:
        return
        yield

    def accept(self, visitor: "AbstractVisitor") -> None:
        visitor.visit_blob(self)

    def accept_with_context(
            self,
            visitor: "AbstractVisitorWithContext[ContextT]",
            context: ContextT
    ) -> None:
        visitor.visit_blob_with_context(self, context)

    def transform(
            self,
            transformer: "AbstractTransformer[T]"
    ) -> T:
        return transformer.transform_blob(self)

    def transform_with_context(
            self,
            transformer: "AbstractTransformerWithContext[ContextT, T]",
            context: ContextT
    ) -> T:
        return transformer.transform_blob_with_context(self, context)

    def __init__(self, content: str) -> None:
        self.content = content
