# not exercised: the model is used for traversal only
