"""Meta-model for verification: inherited invariants, abstract parents, nested lists."""
from enum import Enum
from re import match
from typing import List, Optional, Set

from icontract import invariant, DBC

from aas_core_meta.marker import verification, constant_set, abstract, serialization


@verification
def is_lower(text: str) -> bool:
    """Check that :paramref:`text` consists of lower-case ASCII letters."""
    pattern = f"^[a-z]+$"
    return match(pattern, text) is not None


@verification
def has_at_most_one(items: List[str]) -> bool:
    """Check that :paramref:`items` has at most one item."""
    return len(items) <= 1


@invariant(lambda self: len(self) <= 2, "Short text has at most two characters")
class Short_text(str, DBC):
    """Represent a short text."""


@invariant(lambda self: is_lower(self), "Lower short text is lower case")
class Lower_short_text(Short_text, DBC):
    """Represent a short lower-case text."""


@abstract
@serialization(with_model_type=True)
@invariant(lambda self: len(self.ident) > 0, "Identifier is not empty")
class Node(DBC):
    """Represent a node."""

    ident: str
    """Identifier"""

    def __init__(self, ident: str) -> None:
        self.ident = ident


@invariant(lambda self: self.weight >= 0, "Weight is not negative")
class Leaf(Node):
    """Represent a leaf."""

    weight: int
    """Weight"""

    def __init__(self, ident: str, weight: int) -> None:
        Node.__init__(self, ident)

        self.weight = weight


@invariant(lambda self: self.ident != "x", "Identifier of a special leaf is not x")
class Special_leaf(Leaf):
    """Represent a special leaf."""

    label: Optional[Lower_short_text]
    """Label"""

    def __init__(
        self, ident: str, weight: int, label: Optional[Lower_short_text] = None
    ) -> None:
        Leaf.__init__(self, ident, weight)

        self.label = label


@invariant(
    lambda self: not (self.children is not None) or len(self.children) <= 1,
    "At most one child"
)
@invariant(
    lambda self: not (self.children is not None)
    or all(child.ident != self.ident for child in self.children),
    "No child shares the identifier"
)
@invariant(
    lambda self: has_at_most_one(self.tags) or self.ident == "many",
    "At most one tag unless identified as many"
)
class Branch(Node):
    """Represent a branch."""

    tags: List[Short_text]
    """Tags"""

    children: Optional[List[Node]]
    """Children"""

    def __init__(
        self,
        ident: str,
        tags: List[Short_text],
        children: Optional[List[Node]] = None,
    ) -> None:
        Node.__init__(self, ident)

        self.tags = tags
        self.children = children


__version__ = "V0"
__xml_namespace__ = "https://example.invalid/verif"
