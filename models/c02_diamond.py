"""Meta-model for verification."""
from typing import List, Optional

from icontract import invariant, DBC

from aas_core_meta.marker import abstract, serialization


@abstract
@serialization(with_model_type=True)
@invariant(lambda self: len(self.x) >= 1, "X is not empty")
class Root(DBC):
    """Represent the root."""

    x: str
    """X"""

    def __init__(self, x: str) -> None:
        self.x = x


@abstract
class A(Root):
    """Represent A."""

    def __init__(self, x: str) -> None:
        Root.__init__(self, x)


@abstract
class B(Root):
    """Represent B."""

    def __init__(self, x: str) -> None:
        Root.__init__(self, x)


class C(A, B):
    """Represent C."""

    def __init__(self, x: str) -> None:
        A.__init__(self, x)


__version__ = "V0"
__xml_namespace__ = "https://example.invalid/verif"
