"""Meta-model for verification: nesting of operators in invariants (parentheses, precedence, associativity)."""
from typing import List, Optional, Set

from icontract import invariant, DBC

from aas_core_meta.marker import constant_set


@invariant(
    lambda self: self.total - (self.reserved + self.used) >= 0,
    "Total covers reserved plus used"
)
@invariant(
    lambda self: self.total - (self.reserved - self.used) < 9,
    "Total minus the difference is small"
)
@invariant(
    lambda self: self.total + (self.reserved - self.used) > -7,
    "Total plus the difference is not too negative"
)
@invariant(
    lambda self: (self.total - self.reserved) - self.used < 12,
    "Left-nested difference is small"
)
@invariant(
    lambda self: self.total - self.reserved - self.used > -12,
    "Chained difference is not too negative"
)
@invariant(
    lambda self: self.unset == (self.label is None),
    "Unset mirrors the label"
)
@invariant(
    lambda self: (self.used > 0) == self.busy,
    "Busy mirrors used"
)
@invariant(
    lambda self: self.busy != (self.used < 1),
    "Busy contradicts idle"
)
@invariant(
    lambda self: (self.total > 3) == (self.reserved > 3),
    "Total and reserved are on the same side of three"
)
@invariant(
    lambda self: not (self.busy and self.unset) or self.total > 0,
    "Busy and unset imply a positive total"
)
@invariant(
    lambda self: (self.busy or self.unset) and (self.total < 10 or self.reserved < 10),
    "Busy or unset, and something is below ten"
)
@invariant(
    lambda self: self.busy or (self.unset and self.total != 5),
    "Busy, or unset and total is not five"
)
@invariant(
    lambda self: not (not self.busy or self.used > 2) or self.reserved != 7,
    "Reserved is not seven for heavy or idle"
)
@invariant(
    lambda self: len(self.tag) + self.used <= 11,
    "Tag length plus used is bounded"
)
@invariant(
    lambda self: self.total - len(self.tag) > -6,
    "Total minus tag length is bounded"
)
class Arithmetic(DBC):
    """Represent arithmetic and comparison nesting."""

    total: int
    """Total"""

    reserved: int
    """Reserved"""

    used: int
    """Used"""

    busy: bool
    """Busy"""

    unset: bool
    """Unset"""

    tag: str
    """Tag"""

    label: Optional[str]
    """Label"""

    def __init__(
        self,
        total: int,
        reserved: int,
        used: int,
        busy: bool,
        unset: bool,
        tag: str,
        label: Optional[str] = None,
    ) -> None:
        self.total = total
        self.reserved = reserved
        self.used = used
        self.busy = busy
        self.unset = unset
        self.tag = tag
        self.label = label


Vowels: Set[str] = constant_set(
    values=["a", "e"],
    description="Vowels.",
)


@invariant(
    lambda self: not (self.first == self.second),
    "First differs from second"
)
@invariant(
    lambda self: (self.first in Vowels) == self.vowel,
    "Vowel flag mirrors the first"
)
@invariant(
    lambda self: not (self.second in Vowels) or self.vowel,
    "A vowel second implies the vowel flag"
)
@invariant(
    lambda self: not (not self.vowel or self.strict) or len(self.words) >= 1,
    "A strict vowel has words"
)
@invariant(
    lambda self: not self.vowel or (not self.strict or len(self.words) <= 2),
    "A strict vowel has at most two words"
)
@invariant(
    lambda self: all(
        self.words[i] != self.words[i + 1] for i in range(0, len(self.words) - 1)
    ),
    "No word repeats its predecessor"
)
@invariant(
    lambda self: len(self.words) < 1 or self.words[len(self.words) - 1] != "z",
    "The last word is not z"
)
@invariant(
    lambda self: all(
        any(other == word for other in self.allowed) for word in self.words
    )
    or self.strict,
    "All words are allowed unless strict"
)
@invariant(
    lambda self: any(
        len(word) - (self.offset + 1) >= 0 for word in self.words
    )
    or len(self.words) == 0,
    "Some word is longer than the offset"
)
@invariant(
    lambda self: not (self.offset - (len(self.words) - len(self.allowed)) > 3),
    "Offset does not exceed the surplus by more than three"
)
class Precedence(DBC):
    """Represent operator nesting over strings and lists."""

    first: str
    """First"""

    second: str
    """Second"""

    vowel: bool
    """Vowel"""

    strict: bool
    """Strict"""

    offset: int
    """Offset"""

    words: List[str]
    """Words"""

    allowed: List[str]
    """Allowed"""

    def __init__(
        self,
        first: str,
        second: str,
        vowel: bool,
        strict: bool,
        offset: int,
        words: List[str],
        allowed: List[str],
    ) -> None:
        self.first = first
        self.second = second
        self.vowel = vowel
        self.strict = strict
        self.offset = offset
        self.words = words
        self.allowed = allowed


__version__ = "V0"
__xml_namespace__ = "https://example.invalid/verif"
