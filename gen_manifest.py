#!/usr/bin/env python3
"""Regenerates MANIFEST.json from the table below (keeps it valid by construction)."""
import json, pathlib

HERE = pathlib.Path(__file__).resolve().parent

# id -> (level, technique, level text, level note)
CHECKS = {}
NOT_APPLICABLE = {}

def add(pid, level, technique, text, note, design_ref=None):
    CHECKS[pid] = dict(level=level, technique=technique, text=text, note=note, design_ref=design_ref or f"DESIGN.md §2 {pid}")

exec((HERE / "manifest_table.py").read_text())
for _p in ["C%02d" % i for i in range(1, 31)]:
    if _p not in CHECKS and _p not in NOT_APPLICABLE:
        NOT_APPLICABLE[_p] = NA_PENDING

props = [json.loads(l)["id"] for l in (HERE / "properties.jsonl").read_text().splitlines() if l.strip()]
checks = []
for pid in props:
    if pid in CHECKS:
        c = CHECKS[pid]
        checks.append({
            "property_id": pid,
            "quick_cmd": f"./check {pid} --tier quick",
            "thorough_cmd": f"./check {pid} --tier thorough",
            "evidence_file": f"/verif/evidence/{pid}.json",
            "replay_cmd_template": f"./check {pid} --replay {{path}}",
            "engine": "sx",
            "level_claimed": {"category": c["level"], "text": c["text"], "design_ref": c["design_ref"]},
            "level_note": c["note"],
            "technique": c["technique"],
        })
na = [{"property_id": p, "reason": NOT_APPLICABLE[p]} for p in props if p not in CHECKS]
for p in props:
    assert (p in CHECKS) != (p in NOT_APPLICABLE), p
doc = {
    "version": 1,
    "setup_cmd": "./setup.sh",
    "hooks": {
        "guard": "AAS_CORE_CODEGEN_VERIF",
        "enable": "no source hooks: all stubs are applied from the harness process; checks export AAS_CORE_CODEGEN_VERIF=1 (informational)",
        "baseline_off_cmd": "cd /repo && /venv/bin/python -m pytest -ra -q -p no:cacheprovider --timeout=900 --continue-on-collection-errors",
        "source_commits": [],
        "add_only": True,
    },
    "engines": [
        {"name": "sx", "path": "/verif/vf/sx.py", "serves_properties": sorted(CHECKS),
         "kind_free_text": "CrossHair 0.0.110 + z3 5.1 symbolic execution of the real Python functions with an own path-exhausting driver; icontract re-armed; every witness replayed concretely without CrossHair"},
        {"name": "rx", "path": "/verif/vf/rx.py", "serves_properties": [p for p in ("C13", "C14", "C16", "C17", "C18") if p in CHECKS],
         "kind_free_text": "regular-language queries (Glushkov automata of Python/XSD regexes and VM programs) as bounded LIA formulas decided by z3"},
        {"name": "bmc", "path": "/verif/vf/bmc_cache.py", "serves_properties": [p for p in ("C24",) if p in CHECKS],
         "kind_free_text": "z3 bounded model checking of interleavings/crash points over the file-system operation trace recorded from the real run.load_model"},
    ],
    "checks": checks,
    "not_applicable": na,
    "notes": "See DESIGN.md. Exit codes: 0 ok (KNOWN-FINDING lines for open entries of known_findings.json), 1 VIOLATION, 2 harness error.",
}
(HERE / "MANIFEST.json").write_text(json.dumps(doc, indent=1) + "\n")
print("checks:", len(checks), "n/a:", len(na))
