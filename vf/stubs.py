"""
Nondeterministic stubs for the driver layer (main.py, run.py, <target>/main.py, smoke/main.py).

* ``Steps``      -- decides per stubbed call whether it fails (one symbolic index "the call that fails") and with
                    which messages; remembers what it injected so that the oracle knows what must be reported.
* ``LibProxy``   -- stands in for a module such as ``python_lib``: every function is replaced by a stub whose result
                    shape is derived from the REAL function's return annotation.
* ``OutFs`` / ``OutPath`` -- in-memory output tree with failure injection for ``mkdir`` / ``write_text``.
"""
from __future__ import annotations

import inspect
import pathlib
import typing
from typing import Any, Dict, List, Optional, Sequence, Tuple

from aas_core_codegen.common import Error


class Anything:
    """An opaque value (symbol tables, verified tables, ...): every attribute is again opaque, iteration is empty."""

    def __getattr__(self, name: str) -> Any:
        if name.startswith("__"):
            raise AttributeError(name)
        return Anything()

    def __iter__(self) -> Any:
        return iter(())

    def __len__(self) -> int:
        return 0

    def __call__(self, *args: Any, **kwargs: Any) -> Any:
        return Anything()


class StubParseError(Exception):
    """An exception whose text may be symbolic (str() of a builtin exception would realize it)."""

    def __init__(self, msg: Any) -> None:
        Exception.__init__(self)
        self.msg = msg

    def __str__(self) -> Any:
        return self.msg


class Steps:
    def __init__(self, fail_at: Any, messages: Sequence[Any], nested: bool = False) -> None:
        self.fail_at = fail_at  # symbolic int: index of the stubbed call which fails (negative / too large: none)
        self.messages = list(messages)
        self.nested = nested
        self.calls: List[str] = []  # names of the stubbed calls in execution order
        self.injected: Optional[Tuple[str, List[Any]]] = None  # (call name, messages) once a failure was returned
        self.injected_as_plain_strings = False  # the failing call returns List[str] (no Error objects, no nesting)
        self.injected_as_exception = False  # the failing call returns an exception object (source_to_atok)
        self.syntax_error = False

    def fails_now(self, name: str) -> bool:
        idx = len(self.calls)
        self.calls.append(name)
        if self.injected is None and idx == self.fail_at:
            self.injected = (name, list(self.messages))
            return True
        return False

    def single_error(self) -> Error:
        if self.nested and len(self.messages) >= 2:
            return Error(None, self.messages[0], underlying=[Error(None, m) for m in self.messages[1:]])
        self.messages = self.messages[:1]
        self.injected = (self.injected[0], list(self.messages))  # type: ignore
        return Error(None, self.messages[0])

    def errors(self) -> List[Error]:
        if self.nested and len(self.messages) >= 2:
            # first message is the parent, the rest underlying
            return [Error(None, self.messages[0], underlying=[Error(None, m) for m in self.messages[1:]])]
        return [Error(None, m) for m in self.messages]


def _shape(fn: Any) -> Tuple[str, Any]:
    """('pair', T) | ('opt_errors', Error|str) | ('value', T) from the real function's return annotation."""
    try:
        ret = typing.get_type_hints(fn).get("return")
    except Exception:
        ret = None
    origin = typing.get_origin(ret)
    args = typing.get_args(ret)
    if origin is tuple and len(args) == 2:
        second = [a for a in typing.get_args(args[1]) if a is not type(None)]
        if second and second[0] is Error:
            return "pair_single", args[0]
        if second and inspect.isclass(second[0]) and issubclass(second[0], BaseException):
            return "pair_exception", args[0]
        return "pair", args[0]
    if origin is list and args and args[0] is str:
        return "list_of_messages", None
    if origin is typing.Union and type(None) in args:
        inner = [a for a in args if a is not type(None)][0]
        if typing.get_origin(inner) is list:
            return "opt_errors", typing.get_args(inner)[0]
    return "value", ret


def _value_for(tp: Any) -> Any:
    """A success value of (Optional[]) type ``tp``."""
    args = typing.get_args(tp)
    if typing.get_origin(tp) is typing.Union:
        tp = [a for a in args if a is not type(None)][0]
    if tp is str or (inspect.isclass(tp) and issubclass(tp, str)):
        return "code\n"
    if typing.get_origin(tp) is list:
        item = typing.get_args(tp)[0]
        if inspect.isclass(item) and item.__name__ == "JavaFile":
            return [item(name="Dummy.java", content="code\n")]
        return []
    return Anything()


class LibProxy:
    """Module stand-in: functions become stubs, everything else (classes, constants, regexes) passes through."""

    def __init__(self, real: Any, steps: Steps) -> None:
        object.__setattr__(self, "_real", real)
        object.__setattr__(self, "_steps", steps)

    def __getattr__(self, name: str) -> Any:
        real = getattr(self._real, name)
        if not inspect.isfunction(real):
            return real
        steps: Steps = self._steps
        kind, tp = _shape(real)
        label = f"{self._real.__name__.rsplit('.', 2)[-1]}.{name}"

        def stub(*args: Any, **kwargs: Any) -> Any:
            if kind == "pair":
                if steps.fails_now(label):
                    return None, steps.errors()
                return _value_for(tp), None
            if kind == "pair_single":
                if steps.fails_now(label):
                    return None, steps.single_error()
                return _value_for(tp), None
            if kind == "pair_exception":
                if steps.fails_now(label):
                    steps.injected_as_exception = True
                    if steps.syntax_error:
                        return None, SyntaxError("invalid syntax", ("<unknown>", 3, 1, "x", 3, 2))
                    return None, StubParseError(steps.messages[0])
                return _value_for(tp), None
            if kind == "list_of_messages":
                if steps.fails_now(label):
                    steps.injected_as_plain_strings = True
                    return list(steps.messages)
                return []
            if kind == "opt_errors":
                if steps.fails_now(label):
                    if tp is str:
                        steps.injected_as_plain_strings = True
                        return list(steps.messages)
                    return steps.errors()
                return None
            steps.calls.append(label + "(infallible)")
            # an infallible step does not count as a candidate for the failing call: keep indices dense
            steps.calls.pop()
            return _value_for(tp)

        return stub


class OutFs:
    def __init__(self, fail_write_at: Any = -1, kinds: Optional[Dict[str, str]] = None, fail_with_value_error: Any = False) -> None:
        self.fail_with_value_error = fail_with_value_error  # e.g. UnicodeEncodeError from write_text: NOT an OSError
        self.kinds: Dict[str, str] = dict(kinds or {})  # posix text -> 'dir' | 'file'
        self.ops: List[Tuple[str, str]] = []
        self.fail_write_at = fail_write_at  # symbolic index over mkdir/write_text operations
        self.failed: Optional[Tuple[str, str]] = None
        self.contents: Dict[str, Any] = {}

    def _maybe_fail(self, op: str, text: str) -> None:
        idx = len(self.ops)
        self.ops.append((op, text))
        if self.failed is None and idx == self.fail_write_at:
            self.failed = (op, text)
            if self.fail_with_value_error:
                raise UnicodeEncodeError("utf-8", "\ud800", 0, 1, "No space left on device (surrogates not allowed)")
            raise OSError(28, "No space left on device")


class OutPath:
    def __init__(self, fs: OutFs, text: str) -> None:
        self.fs = fs
        self.text = text

    def __truediv__(self, other: Any) -> "OutPath":
        if isinstance(other, OutPath):
            other = other.text
        elif isinstance(other, pathlib.PurePath):
            other = other.as_posix()
        return OutPath(self.fs, self.text.rstrip("/") + "/" + other)

    @property
    def parent(self) -> "OutPath":
        head, _, _ = self.text.rpartition("/")
        return OutPath(self.fs, head or "/")

    @property
    def name(self) -> str:
        return self.text.rpartition("/")[2]

    def exists(self) -> bool:
        return self.text in self.fs.kinds

    def is_dir(self) -> bool:
        return self.fs.kinds.get(self.text) == "dir"

    def is_file(self) -> bool:
        return self.fs.kinds.get(self.text) == "file"

    def is_absolute(self) -> bool:
        return self.text.startswith("/")

    def mkdir(self, parents: bool = False, exist_ok: bool = False) -> None:
        self.fs._maybe_fail("mkdir", self.text)
        cur = self.text
        while cur and cur != "/" and cur not in self.fs.kinds:
            self.fs.kinds[cur] = "dir"
            cur = cur.rpartition("/")[0]

    def write_text(self, data: Any, encoding: Optional[str] = None) -> int:
        self.fs._maybe_fail("write", self.text)
        self.fs.kinds[self.text] = "file"
        self.fs.contents[self.text] = data
        return len(data)

    def read_text(self, encoding: Optional[str] = None) -> Any:
        self.fs.ops.append(("read", self.text))
        return self.fs.contents[self.text]

    def as_posix(self) -> str:
        return self.text

    def __str__(self) -> str:
        return self.text

    def __fspath__(self) -> str:
        return self.text

    def __format__(self, spec: str) -> str:
        return self.text

    def __repr__(self) -> str:
        return f"OutPath({self.text!r})"


class Sink:
    """A text sink (stdout / stderr) which keeps the written pieces (possibly symbolic strings) without joining."""

    def __init__(self) -> None:
        self.pieces: List[Any] = []

    def write(self, text: Any) -> int:
        self.pieces.append(text)
        return len(text)

    def empty(self) -> bool:
        for p in self.pieces:
            if len(p) > 0:
                return False
        return True

    def value(self) -> Any:
        out: Any = ""
        for p in self.pieces:
            out = out + p
        return out
