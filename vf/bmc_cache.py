"""
``bmc`` -- bounded model checking (z3) of the model-cache protocol of run.load_model under interleavings and crashes.

1. ``record()`` executes the REAL ``run.load_model(cache_model=True)`` on the in-memory file system of vf.cachefs in
   the cold-cache and the warm-cache situation, for two model texts and two runs, and turns the logged operations into
   a *program*: a list of (operation, file role) per branch.  File roles are derived from the recorded path strings:
   ``C<k>`` = the cache entry of text k (two texts with the same entry path collapse into one role), ``T<i>`` = the
   temporary file of run i (equal recorded names collapse into one shared role).  A change of the real code (writing
   straight to the entry, a constant temporary name, a dropped rename, a key that ignores the text) changes the program.
2. ``check()`` encodes N runs of that program as a transition system over z3 integers -- file states
   (absent / partial / complete, owner text), program counters, one scheduling variable per step, one crash point per
   run -- unrolls it to the total number of operations and asks z3 for a violation of
     P1  no ``load`` (nor ``open rb``) ever sees a partial entry or the entry of another text,
     P2  every run which completes returns the table of ITS text and does not raise,
     P3  at the end every partial file is a temporary file (entries are absent or complete and of the right text).
3. A model is decoded into (texts, schedule, crash points) and replayed against the real ``load_model`` calls which
   are driven operation by operation through the hook of vf.cachefs (threads hand over at every file operation).

POSIX assumptions: rename is atomic, an operation on one name is atomic; a crash stops a run between two operations
and skips ``finally`` blocks (kill -9 / power loss).
"""
from __future__ import annotations

import threading
import time
from typing import Any, Dict, List, Optional, Tuple

import z3

from aas_core_codegen import run

from vf.cachefs import CACHE_PREFIX, Box, CacheFs, CPath, Crash, Tagged, installed

TEXTS = ["class A:\n    pass\n", "class B:\n    pass\n"]

ABSENT, PARTIAL, COMPLETE = 0, 1, 2


def _one_run(fs: CacheFs, text: str) -> Any:
    fs.run_id += 1
    fs.files["/in/meta_model.py"] = text
    with installed(run, fs):
        return run.load_model(model_path=CPath(fs, "/in/meta_model.py"), cache_model=True)  # type: ignore


def _trace(fs: CacheFs, since: int) -> List[Tuple[str, str]]:
    return [(name, path) for _, name, path in fs.ops[since:] if CACHE_PREFIX in path or name == "front-end"]


def record() -> Dict[str, Any]:
    """Programs (cold / warm branch) with file roles, extracted from real executions."""
    fs = CacheFs()
    traces: Dict[Tuple[int, str], List[Tuple[str, str]]] = {}
    n0 = len(fs.ops)
    _one_run(fs, TEXTS[0])
    traces[(0, "cold")] = _trace(fs, n0)
    n0 = len(fs.ops)
    _one_run(fs, TEXTS[0])
    traces[(0, "warm")] = _trace(fs, n0)
    fs2 = CacheFs()
    fs2.uuid_counter = 100
    n0 = len(fs2.ops)
    _one_run(fs2, TEXTS[1])
    traces[(1, "cold")] = _trace(fs2, n0)

    def entry_paths(tr: List[Tuple[str, str]]) -> List[str]:
        return [p for op, p in tr if op in ("exists", "open_rb", "load")]

    entry0 = entry_paths(traces[(0, "warm")])
    entry1 = entry_paths(traces[(1, "cold")])
    entry_path0 = entry0[0] if entry0 else None
    entry_path1 = entry1[0] if entry1 else None
    shared_entry = entry_path0 is not None and entry_path0 == entry_path1

    def tmp_names(tr: List[Tuple[str, str]], entry: Optional[str]) -> List[str]:
        out = []
        for op, p in tr:
            for part in p.split(" -> "):
                if part != entry and part.startswith(CACHE_PREFIX.rstrip("/")) and "." in part.rsplit("/", 1)[-1] \
                        and part not in out and op != "mkdir":
                    out.append(part)
        return out

    tmp0 = tmp_names(traces[(0, "cold")], entry_path0)
    tmp1 = tmp_names(traces[(1, "cold")], entry_path1)
    # a second cold run on the same text (fresh file system, later uuid): is the temporary name private to the run?
    fs3 = CacheFs()
    fs3.uuid_counter = 200
    n0 = len(fs3.ops)
    _one_run(fs3, TEXTS[0])
    tmp0_again = tmp_names(_trace(fs3, n0), entry_path0)
    if set(tmp0) & set(tmp1):
        shared_tmp = "global"
    elif set(tmp0) & set(tmp0_again):
        shared_tmp = "per-text"
    else:
        shared_tmp = ""

    def roles(tr: List[Tuple[str, str]], entry: Optional[str], tmps: List[str]) -> List[Tuple[str, List[str]]]:
        prog = []
        for op, p in tr:
            rs = []
            for part in p.split(" -> "):
                if part == entry:
                    rs.append("C")
                elif part in tmps:
                    rs.append("T")
                elif op == "mkdir" or op == "front-end":
                    rs.append("-")
                else:
                    rs.append("?" + part)
            prog.append((op, rs))
        return prog

    cold = roles(traces[(0, "cold")], entry_path0, tmp0)
    warm = roles(traces[(0, "warm")], entry_path0, tmp0)
    cold1 = roles(traces[(1, "cold")], entry_path1, tmp1)
    return {"cold": cold, "warm": warm, "cold_other_text": cold1, "shared_entry": shared_entry, "shared_tmp": shared_tmp,
            "raw": {f"{k[0]}:{k[1]}": v for k, v in traces.items()}}


class ModelError(Exception):
    pass


def check(programs: Dict[str, Any], n_runs: int, timeout_ms: int = 600000) -> Dict[str, Any]:
    cold, warm = programs["cold"], programs["warm"]
    if [op for op, _ in cold] != [op for op, _ in programs["cold_other_text"]]:
        raise ModelError("the cold-cache trace depends on the model text in an unexpected way")
    # the two branches share a prefix which ends with the operation that decides (exists)
    prefix = 0
    while prefix < min(len(cold), len(warm)) and cold[prefix] == warm[prefix]:
        prefix += 1
    if prefix == 0 and (cold or warm):
        raise ModelError("cold and warm traces do not share the deciding operation")
    branching = cold != warm
    if branching and cold[prefix - 1][0] != "exists":
        raise ModelError(f"the branch is not decided by an existence test but by {cold[prefix - 1]}")
    for op, rs in cold + warm:
        for r in rs:
            if r.startswith("?"):
                raise ModelError(f"operation {op} on a path that is neither the entry nor a temporary file: {r[1:]}")

    K = 2
    N = n_runs
    # files: entries then temporaries
    entry_ids = [0, 0] if programs["shared_entry"] else [0, 1]
    n_entries = 1 if programs["shared_entry"] else 2
    if programs["shared_tmp"] == "global":
        tmp_ids: List[Any] = [n_entries] * N
        F = n_entries + 1
    elif programs["shared_tmp"] == "per-text":
        tmp_ids = [None] * N  # filled below (depends on the symbolic text of the run)
        F = n_entries + K
    else:
        tmp_ids = [n_entries + i for i in range(N)]
        F = n_entries + N
    max_len = max(len(cold), len(warm))
    T = N * max_len

    s = z3.Solver()
    s.set("timeout", timeout_ms)
    text = [z3.Int(f"text{i}") for i in range(N)]
    crash = [z3.Int(f"crash{i}") for i in range(N)]  # number of operations run i executes before it dies (>= len: never)
    for i in range(N):
        s.add(text[i] >= 0, text[i] < K, crash[i] >= 0, crash[i] <= max_len + 1)
    if programs["shared_tmp"] == "per-text":
        tmp_ids = [z3.If(text[i] == 0, n_entries, n_entries + 1) for i in range(N)]
    sched = [z3.Int(f"sched{t}") for t in range(T)]
    st = [[z3.Int(f"st_{f}_{t}") for f in range(F)] for t in range(T + 1)]
    key = [[z3.Int(f"key_{f}_{t}") for f in range(F)] for t in range(T + 1)]
    pc = [[z3.Int(f"pc_{i}_{t}") for i in range(N)] for t in range(T + 1)]
    warm_b = [[z3.Bool(f"warm_{i}_{t}") for i in range(N)] for t in range(T + 1)]
    res = [[z3.Int(f"res_{i}_{t}") for i in range(N)] for t in range(T + 1)]
    raised = [[z3.Bool(f"raised_{i}_{t}") for i in range(N)] for t in range(T + 1)]
    bad = [z3.Bool(f"bad_{t}") for t in range(T + 1)]  # P1 violated by the step leading to t

    for f in range(F):
        s.add(st[0][f] == ABSENT, key[0][f] == 0)
    for i in range(N):
        s.add(pc[0][i] == 0, warm_b[0][i] == False, res[0][i] == -1, raised[0][i] == False)  # noqa: E712
    s.add(bad[0] == False)  # noqa: E712

    def entry_of(i: int) -> Any:  # file id (z3 term) of the entry of run i
        return z3.If(text[i] == 0, entry_ids[0], entry_ids[1])

    def prog_len(i: int, t: int) -> Any:
        return z3.If(warm_b[t][i], len(warm), len(cold))

    def finished(i: int, t: int) -> Any:
        return z3.Or(pc[t][i] >= prog_len(i, t), pc[t][i] >= crash[i], raised[t][i])

    for t in range(T):
        s.add(sched[t] >= 0, sched[t] < N)
        step_constraints = []
        for i in range(N):
            # effects if run i is scheduled and can move
            can = z3.And(sched[t] == i, z3.Not(finished(i, t)))
            effects_per_op = []
            for branch_name, prog in (("cold", cold), ("warm", warm)):
                for k, (op, rs) in enumerate(prog):
                    if branch_name == "warm" and k < prefix:
                        continue  # shared prefix is executed from the cold listing
                    guard = z3.And(pc[t][i] == k, warm_b[t][i] == (branch_name == "warm"))

                    def fid(role: str) -> Any:
                        return entry_of(i) if role == "C" else tmp_ids[i]

                    new_st = {f: st[t][f] for f in range(F)}
                    new_key = {f: key[t][f] for f in range(F)}
                    new_warm = warm_b[t][i]
                    new_res = res[t][i]
                    new_raised: Any = raised[t][i]
                    is_bad: Any = z3.BoolVal(False)

                    def sel(arr: Dict[int, Any], idx: Any) -> Any:
                        if isinstance(idx, int):
                            return arr[idx]
                        out = arr[F - 1]
                        for f in range(F - 2, -1, -1):
                            out = z3.If(idx == f, arr[f], out)
                        return out

                    def upd(arr: Dict[int, Any], idx: Any, val: Any) -> Dict[int, Any]:
                        if isinstance(idx, int):
                            out = dict(arr)
                            out[idx] = val
                            return out
                        return {f: z3.If(idx == f, val, arr[f]) for f in range(F)}

                    if op == "exists":
                        if branching and k == prefix - 1:
                            new_warm = sel({f: st[t][f] for f in range(F)}, fid(rs[0])) != ABSENT
                    elif op == "open_rb":
                        cur = sel({f: st[t][f] for f in range(F)}, fid(rs[0]))
                        new_raised = cur == ABSENT  # FileNotFoundError
                    elif op == "load":
                        cur_st = sel({f: st[t][f] for f in range(F)}, fid(rs[0]))
                        cur_key = sel({f: key[t][f] for f in range(F)}, fid(rs[0]))
                        is_bad = z3.Or(cur_st != COMPLETE, cur_key != text[i])
                        new_res = z3.If(cur_st == COMPLETE, cur_key, -2)
                        new_raised = cur_st != COMPLETE  # pickle raises on a truncated file
                    elif op == "front-end":
                        new_res = text[i]
                    elif op == "mkdir":
                        pass
                    elif op == "open_wb":
                        new_st = upd(new_st, fid(rs[0]), z3.IntVal(PARTIAL))
                        new_key = upd(new_key, fid(rs[0]), text[i])
                    elif op == "dump":
                        new_st = upd(new_st, fid(rs[0]), z3.IntVal(COMPLETE))
                        new_key = upd(new_key, fid(rs[0]), text[i])
                    elif op == "rename":
                        src, dst = fid(rs[0]), fid(rs[1])
                        src_st = sel({f: st[t][f] for f in range(F)}, src)
                        src_key = sel({f: key[t][f] for f in range(F)}, src)
                        moved_st = upd(upd(new_st, dst, src_st), src, z3.IntVal(ABSENT))
                        moved_key = upd(new_key, dst, src_key)
                        new_st = {f: z3.If(src_st == ABSENT, st[t][f], moved_st[f]) for f in range(F)}
                        new_key = {f: z3.If(src_st == ABSENT, key[t][f], moved_key[f]) for f in range(F)}
                        new_raised = src_st == ABSENT
                    elif op == "unlink":
                        new_st = upd(new_st, fid(rs[0]), z3.IntVal(ABSENT))
                    else:
                        raise ModelError(f"operation without a model: {op}")
                    eff = [pc[t + 1][i] == k + 1, warm_b[t + 1][i] == new_warm, res[t + 1][i] == new_res,
                           raised[t + 1][i] == new_raised, bad[t + 1] == z3.Or(bad[t], is_bad)]
                    eff += [st[t + 1][f] == new_st[f] for f in range(F)]
                    eff += [key[t + 1][f] == new_key[f] for f in range(F)]
                    effects_per_op.append(z3.Implies(guard, z3.And(eff)))
            frame_others = [z3.And(pc[t + 1][j] == pc[t][j], warm_b[t + 1][j] == warm_b[t][j], res[t + 1][j] == res[t][j],
                                   raised[t + 1][j] == raised[t][j]) for j in range(N) if j != i]
            step_constraints.append(z3.Implies(can, z3.And(effects_per_op + frame_others)))
            # stutter if the scheduled run cannot move
            stutter = [pc[t + 1][j] == pc[t][j] for j in range(N)] + [warm_b[t + 1][j] == warm_b[t][j] for j in range(N)] + \
                      [res[t + 1][j] == res[t][j] for j in range(N)] + [raised[t + 1][j] == raised[t][j] for j in range(N)] + \
                      [st[t + 1][f] == st[t][f] for f in range(F)] + [key[t + 1][f] == key[t][f] for f in range(F)] + \
                      [bad[t + 1] == bad[t]]
            step_constraints.append(z3.Implies(z3.And(sched[t] == i, finished(i, t)), z3.And(stutter)))
        s.add(z3.And(step_constraints))

    completed = [z3.And(pc[T][i] >= prog_len(i, T), pc[T][i] <= crash[i], z3.Not(raised[T][i])) for i in range(N)]
    p1 = bad[T]
    p2 = z3.Or([z3.Or(raised[T][i], z3.And(completed[i], res[T][i] != text[i])) for i in range(N)])
    # all runs are over (completed, crashed or raised)
    all_over = z3.And([finished(i, T) for i in range(N)])
    p3 = z3.And(all_over, z3.Or([z3.Or(st[T][f] == PARTIAL, z3.And(st[T][f] == COMPLETE, key[T][f] != (f if not programs["shared_entry"] else key[T][f])))
                                 for f in range(n_entries)]))
    results: Dict[str, Any] = {"queries": [], "violations": [], "n_runs": N, "steps": T, "files": F}
    for name, prop in (("P1-load-sees-partial-or-foreign-entry", p1), ("P2-completed-run-differs-or-raises", p2),
                       ("P3-partial-or-foreign-entry-left-behind", p3)):
        s.push()
        s.add(prop)
        t0 = time.perf_counter()
        r = s.check()
        dt = time.perf_counter() - t0
        results["queries"].append({"property": name, "result": str(r), "seconds": round(dt, 3)})
        if str(r) == "sat":
            m = s.model()
            results["violations"].append({
                "property": name,
                "texts": [m.eval(text[i], model_completion=True).as_long() for i in range(N)],
                "crash": [m.eval(crash[i], model_completion=True).as_long() for i in range(N)],
                "schedule": [m.eval(sched[t], model_completion=True).as_long() for t in range(T)],
            })
        s.pop()
    return results


# ------------------------------------------------------------------------------------------------- replay
def replay(texts: List[int], crash: List[int], schedule: List[int]) -> Dict[str, Any]:
    """Drive real load_model calls (one thread per run) through the schedule; returns what was observed."""
    fs = CacheFs()
    n = len(texts)
    cond = threading.Condition()
    state = {"turn": None, "ops_done": [0] * n, "dead": [False] * n, "finished": [False] * n, "waiting": [False] * n}
    tls = threading.local()
    observed: Dict[str, Any] = {"results": [None] * n, "raised": [None] * n, "loads": []}

    def hook(name: str, path: str) -> None:
        i = getattr(tls, "run", None)
        if i is None:
            return
        if not (CACHE_PREFIX in path or name == "front-end"):
            return
        with cond:
            if state["dead"][i]:
                raise Crash()
            state["waiting"][i] = True
            cond.notify_all()
            while state["turn"] != i:
                cond.wait(timeout=5)
                if state["turn"] is None and all(state["finished"][j] or state["dead"][j] or state["waiting"][j] for j in range(n)):
                    pass
            state["waiting"][i] = False
            state["turn"] = None
            if state["ops_done"][i] >= crash[i]:
                state["dead"][i] = True
                cond.notify_all()
                raise Crash()
            state["ops_done"][i] += 1
            if name == "load":
                box = fs.files.get(path)
                observed["loads"].append({"run": i, "complete": isinstance(box, Box) and box.complete,
                                          "entry_of_text": getattr(getattr(getattr(box, "obj", None), "symbol_table", None), "tag", None)})
            fs.run_id = i + 1
            cond.notify_all()

    fs.hook = hook

    def worker(i: int) -> None:
        tls.run = i
        try:
            # each run reads its own model file
            text = TEXTS[texts[i]]
            with lock_install:
                pass
            r = run.load_model(model_path=_ModelPath(fs, text), cache_model=True)  # type: ignore
            observed["results"][i] = r
        except Crash:
            pass
        except BaseException as e:  # noqa
            observed["raised"][i] = repr(e)
        finally:
            with cond:
                state["finished"][i] = True
                cond.notify_all()

    lock_install = threading.Lock()
    with installed(run, fs):
        threads = [threading.Thread(target=worker, args=(i,), daemon=True) for i in range(n)]
        for th in threads:
            th.start()
        for i in schedule + [j for j in range(n)] * 12:
            with cond:
                deadline = time.time() + 5
                while not (state["waiting"][i] or state["finished"][i] or state["dead"][i]):
                    cond.wait(timeout=0.2)
                    if time.time() > deadline:
                        break
                if state["finished"][i] or state["dead"][i] or not state["waiting"][i]:
                    continue
                state["turn"] = i
                cond.notify_all()
                deadline = time.time() + 5
                while state["turn"] == i and time.time() < deadline:
                    cond.wait(timeout=0.2)
        # release everything that is still waiting
        with cond:
            for i in range(n):
                state["dead"][i] = state["dead"][i] or not state["finished"][i]
            cond.notify_all()
        for th in threads:
            th.join(timeout=5)
    final = {}
    for path, content in fs.files.items():
        if CACHE_PREFIX in path:
            final[path] = {"complete": isinstance(content, Box) and content.complete,
                           "text": getattr(getattr(getattr(content, "obj", None), "symbol_table", None), "tag", None)}
    problems: List[str] = []
    for ld in observed["loads"]:
        if not ld["complete"]:
            problems.append(f"run {ld['run']} loads a partially written entry")
        elif ld["entry_of_text"] != TEXTS[texts[ld["run"]]]:
            problems.append(f"run {ld['run']} loads the entry of another model text")
    for i in range(n):
        if observed["raised"][i] is not None:
            problems.append(f"run {i} raises {observed['raised'][i]}")
        r = observed["results"][i]
        if r is not None:
            ok, err = r
            if ok is None or not isinstance(ok[0], Tagged) or ok[0].tag != TEXTS[texts[i]]:
                problems.append(f"run {i} completes with the table of another text or an error: {err!r}")
    for path, info in final.items():
        if not path.endswith(".tmp") and not info["complete"]:
            problems.append(f"a partially written file is left under the entry name {path}")
    return {"problems": problems, "final_files": final, "loads": observed["loads"],
            "raised": observed["raised"]}


class _ModelPath(CPath):
    """A model path whose text is private to the run (concurrent runs read different files)."""

    def __init__(self, fs: CacheFs, text: str) -> None:
        CPath.__init__(self, fs, "/in/meta_model.py")
        self._text = text

    def exists(self) -> bool:
        return True

    def is_file(self) -> bool:
        return True

    def read_text(self, encoding: Optional[str] = None) -> Any:
        return self._text
