"""
A validator for exactly the JSON Schema vocabulary which aas-core-codegen emits, written so that it can run on
JSON-ables holding symbolic strings / ints (plain Python control flow; ``pattern`` through vf.sym.regex_match).

Vocabulary: type, properties, required, items, minLength, maxLength, minItems, maxItems, pattern, enum, const, allOf,
oneOf, $ref (local, ``#/definitions/...``).  Any other keyword raises ``Unsupported`` -- the caller reports it rather
than silently ignoring a constraint.  ``cross_check`` compares the verdict with the ``jsonschema`` library on concrete
documents (run on every witness and on a fixed battery).

Patterns: the schema follows the UTF-16 convention of the generator (``fix_pattern_for_utf16``): the subject string is
matched as a sequence of UTF-16 code units.  JSON Schema's ``pattern`` is an unanchored ECMA-262 search; all emitted
patterns have the form ``^...$`` for which this equals a full match.
"""
from __future__ import annotations

from typing import Any, Dict, List

from vf.common import symbolic

ANNOTATIONS = {"$schema", "title", "$id", "definitions", "description", "$comment", "contentEncoding"}


class Unsupported(Exception):
    pass


def utf16_units(s: Any) -> List[Any]:
    """Code units of a (possibly symbolic) string; forks once per character on 'astral or not'."""
    from vf.sym import codepoints
    out: List[Any] = []
    for cp in codepoints(s):
        if cp >= 0x10000:
            v = cp - 0x10000
            out.append(0xD800 + v // 0x400)
            out.append(0xDC00 + v % 0x400)
        else:
            out.append(cp)
    return out


def _pattern_ok(pattern: str, value: Any) -> Any:
    if not (pattern.startswith("^") and pattern.endswith("$")):
        raise Unsupported(f"pattern which is not of the form ^...$: {pattern!r}")
    units = utf16_units(value)
    from vf.sym import regex_match_units
    return regex_match_units(pattern, units)


def _is_type(value: Any, name: str) -> bool:
    if name == "object":
        return isinstance(value, dict)
    if name == "array":
        return isinstance(value, list)
    if name == "string":
        return isinstance(value, str)
    if name == "boolean":
        return isinstance(value, bool)
    if name == "integer":
        return isinstance(value, int) and not isinstance(value, bool)
    if name == "number":
        return isinstance(value, (int, float)) and not isinstance(value, bool)
    if name == "null":
        return value is None
    raise Unsupported(f"type {name!r}")


def accepts(schema: Dict[str, Any], node: Any, value: Any) -> bool:
    """Does ``value`` validate against the sub-schema ``node`` of ``schema``?"""
    if node is True:
        return True
    for key, arg in node.items():
        if key in ANNOTATIONS:
            continue
        if key == "$ref":
            if not arg.startswith("#/definitions/"):
                raise Unsupported(f"$ref {arg!r}")
            target = schema["definitions"].get(arg[len("#/definitions/"):])
            if target is None:
                raise Unsupported(f"dangling $ref {arg!r}")
            if not accepts(schema, target, value):
                return False
        elif key == "type":
            if not _is_type(value, arg):
                return False
        elif key == "properties":
            if isinstance(value, dict):
                for name, sub in arg.items():
                    if name in value and not accepts(schema, sub, value[name]):
                        return False
        elif key == "required":
            if isinstance(value, dict):
                for name in arg:
                    if name not in value:
                        return False
        elif key == "items":
            if isinstance(value, list):
                for item in value:
                    if not accepts(schema, arg, item):
                        return False
        elif key == "minLength":
            if isinstance(value, str) and len(value) < arg:
                return False
        elif key == "maxLength":
            if isinstance(value, str) and len(value) > arg:
                return False
        elif key == "minItems":
            if isinstance(value, list) and len(value) < arg:
                return False
        elif key == "maxItems":
            if isinstance(value, list) and len(value) > arg:
                return False
        elif key == "pattern":
            if isinstance(value, str) and not _pattern_ok(arg, value):
                return False
        elif key == "enum":
            if not any(_json_equal(value, candidate) for candidate in arg):
                return False
        elif key == "const":
            if not _json_equal(value, arg):
                return False
        elif key == "allOf":
            for sub in arg:
                if not accepts(schema, sub, value):
                    return False
        elif key == "oneOf":
            n = 0
            for sub in arg:
                if accepts(schema, sub, value):
                    n += 1
            if n != 1:
                return False
        else:
            raise Unsupported(f"keyword {key!r}")
    return True


def _json_equal(a: Any, b: Any) -> bool:
    if isinstance(a, bool) or isinstance(b, bool):
        return isinstance(a, bool) and isinstance(b, bool) and a == b
    if isinstance(a, str) != isinstance(b, str):
        return False
    return bool(a == b)


def cross_check(schema: Dict[str, Any], definition: str, document: Any) -> None:
    """The verdict of this validator must equal the verdict of the jsonschema library on a concrete document."""
    import jsonschema
    wrapped = dict(schema)
    wrapped["allOf"] = [{"$ref": f"#/definitions/{definition}"}]
    validator_cls = jsonschema.validators.validator_for(wrapped)
    library = validator_cls(wrapped).is_valid(document)
    mine = accepts(schema, {"$ref": f"#/definitions/{definition}"}, document)
    if bool(library) != bool(mine):
        raise AssertionError(f"mini validator {mine} vs jsonschema library {library} on {document!r} ({definition})")
