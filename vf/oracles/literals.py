"""
Spec-derived readers of string / char literals: what does a literal DENOTE in its language?

Every reader takes the literal text and returns ``None`` when the language rejects it, or the list of denoted
code points (bytes >= 0x80 written by a byte escape are returned as ``-byte`` so that they never equal a code point).
They are written as plain index loops over single characters, so that they can be executed symbolically.

Sources: Python 3 language reference 2.4.1; ISO C++11 [lex.ccon], [lex.string], [lex.charset]; ECMA-334 (C# 6) 7.4.5.5/6;
JLS 11 3.3, 3.10.5/6; ECMAScript 2019 11.8.4, 11.8.6; The Go Programming Language Specification (String literals).
"""
from __future__ import annotations

from typing import List, Optional

from vf.sym import ite


def _hex(c: str) -> int:
    """Value of a hex digit or -1."""
    if "0" <= c <= "9":
        return ord(c) - 48
    if "a" <= c <= "f":
        return ord(c) - 87
    if "A" <= c <= "F":
        return ord(c) - 55
    return -1


def _hex_run(s: str, i: int, n: int) -> int:
    """Value of exactly ``n`` hex digits at s[i:i+n] or -1.  Written without branching on the digits (``&``/``|``
    and arithmetic only), so that a symbolic run forks once for the whole run instead of per digit."""
    if i + n > len(s):
        return -1
    v = 0
    ok = None
    for k in range(n):
        o = ord(s[i + k])
        this_ok = ((o >= 48) & (o <= 57)) | ((o >= 65) & (o <= 70)) | ((o >= 97) & (o <= 102))
        ok = this_ok if ok is None else (ok & this_ok)
        # 0-9: o-48; A-F: o-55; a-f: o-87
        v = v * 16 + ite(o <= 57, o - 48, ite(o <= 70, o - 55, o - 87))
    if ok is None or ok:
        return v
    return -1


def _is_surrogate(v: int) -> bool:
    return 0xD800 <= v <= 0xDFFF


# ------------------------------------------------------------------------------------- Python
def read_python_str(lit: str, fstring_braces: bool = False) -> Optional[List[int]]:
    """A single- or double-quoted (not triple-quoted, not raw) str literal.  ``fstring_braces``: the literal is
    the text part of an f-string, where ``{{`` / ``}}`` denote one brace and a single brace is not text."""
    if len(lit) < 2:
        return None
    q = lit[0]
    if q != "'" and q != '"':
        return None
    if lit[-1] != q:
        return None
    body = lit[1:-1]
    out: List[int] = []
    i = 0
    n = len(body)
    while i < n:
        c = body[i]
        if c == q or c == "\n" or c == "\r" or c == "\x00":
            return None  # terminates the literal early / line break in a short string / NUL in source
        if c == "\\":
            if i + 1 >= n:
                return None
            e = body[i + 1]
            i += 2
            if e == "\\" or e == "'" or e == '"':
                out.append(ord(e))
            elif e == "a":
                out.append(7)
            elif e == "b":
                out.append(8)
            elif e == "f":
                out.append(12)
            elif e == "n":
                out.append(10)
            elif e == "r":
                out.append(13)
            elif e == "t":
                out.append(9)
            elif e == "v":
                out.append(11)
            elif e == "\n":
                pass  # line continuation
            elif e == "x":
                v = _hex_run(body, i, 2)
                if v < 0:
                    return None
                out.append(v)
                i += 2
            elif e == "u":
                v = _hex_run(body, i, 4)
                if v < 0:
                    return None
                out.append(v)
                i += 4
            elif e == "U":
                v = _hex_run(body, i, 8)
                if v < 0 or v > 0x10FFFF:
                    return None
                out.append(v)
                i += 8
            elif "0" <= e <= "7":
                v = ord(e) - 48
                k = 0
                while k < 2 and i < n and "0" <= body[i] <= "7":
                    v = v * 8 + ord(body[i]) - 48
                    i += 1
                    k += 1
                out.append(v)
            elif e == "N":
                return None  # named escapes are never emitted; treat as "not understood"
            else:
                # unknown escape: Python keeps the backslash (with a warning)
                out.append(92)
                out.append(ord(e))
            continue
        if fstring_braces and (c == "{" or c == "}"):
            if i + 1 < n and body[i + 1] == c:
                out.append(ord(c))
                i += 2
                continue
            return None
        out.append(ord(c))
        i += 1
    return out


# ------------------------------------------------------------------------------------- C / C++
def _read_c_body(body: str, quote: str, wide: bool) -> Optional[List[int]]:
    out: List[int] = []
    i = 0
    n = len(body)
    limit = 0x10FFFF if wide else 0xFF
    while i < n:
        c = body[i]
        if c == quote or c == "\n":
            return None
        if c != "\\":
            if not wide and ord(c) > 127:
                return None  # execution character set of a narrow literal is not ours to assume
            out.append(ord(c))
            i += 1
            continue
        if i + 1 >= n:
            return None
        e = body[i + 1]
        i += 2
        if e == "'" or e == '"' or e == "?" or e == "\\":
            out.append(ord(e))
        elif e == "a":
            out.append(7)
        elif e == "b":
            out.append(8)
        elif e == "f":
            out.append(12)
        elif e == "n":
            out.append(10)
        elif e == "r":
            out.append(13)
        elif e == "t":
            out.append(9)
        elif e == "v":
            out.append(11)
        elif e == "x":
            # hexadecimal-escape-sequence: \x followed by ALL hexadecimal digits that follow
            v = 0
            k = 0
            while i < n and _hex(body[i]) >= 0:
                v = v * 16 + _hex(body[i])
                if v > 0xFFFFFFFF:
                    return None
                i += 1
                k += 1
            if k == 0 or v > limit:
                return None
            out.append(v)
        elif "0" <= e <= "7":
            v = ord(e) - 48
            k = 0
            while k < 2 and i < n and "0" <= body[i] <= "7":
                v = v * 8 + ord(body[i]) - 48
                i += 1
                k += 1
            out.append(v)
        elif e == "u":
            v = _hex_run(body, i, 4)
            if v < 0 or _is_surrogate(v):
                return None
            out.append(v)
            i += 4
        elif e == "U":
            v = _hex_run(body, i, 8)
            if v < 0 or v > 0x10FFFF or _is_surrogate(v):
                return None
            out.append(v)
            i += 8
        else:
            return None
    return out


def read_cpp_wstring(lit: str) -> Optional[List[int]]:
    if len(lit) < 3 or lit[0] != "L" or lit[1] != '"' or lit[-1] != '"':
        return None
    return _read_c_body(lit[2:-1], '"', True)


def read_cpp_string(lit: str) -> Optional[List[int]]:
    if len(lit) < 2 or lit[0] != '"' or lit[-1] != '"':
        return None
    return _read_c_body(lit[1:-1], '"', False)


def read_cpp_wchar(lit: str) -> Optional[List[int]]:
    """``L'c'`` or the cast form ``static_cast<wchar_t>(0xHHHH)`` used for surrogate code points."""
    pre = "static_cast<wchar_t>(0x"
    if lit.startswith(pre):
        if len(lit) != len(pre) + 5 or lit[-1] != ")":
            return None
        v = _hex_run(lit, len(pre), 4)
        return None if v < 0 else [v]
    if len(lit) < 4 or lit[0] != "L" or lit[1] != "'" or lit[-1] != "'":
        return None
    out = _read_c_body(lit[2:-1], "'", True)
    if out is None or len(out) != 1:
        return None
    return out


# ------------------------------------------------------------------------------------- C#
def read_csharp_string(lit: str) -> Optional[List[int]]:
    """regular-string-literal (not verbatim, not interpolated)."""
    if len(lit) < 2 or lit[0] != '"' or lit[-1] != '"':
        return None
    body = lit[1:-1]
    out: List[int] = []
    i = 0
    n = len(body)
    while i < n:
        c = body[i]
        # single-regular-string-literal-character: any except " \ and new-line-character
        if c == '"' or c == "\n" or c == "\r" or c == "\x85" or c == "\u2028" or c == "\u2029":
            return None
        if c != "\\":
            out.append(ord(c))
            i += 1
            continue
        if i + 1 >= n:
            return None
        e = body[i + 1]
        i += 2
        if e == "'" or e == '"' or e == "\\":
            out.append(ord(e))
        elif e == "0":
            out.append(0)
        elif e == "a":
            out.append(7)
        elif e == "b":
            out.append(8)
        elif e == "f":
            out.append(12)
        elif e == "n":
            out.append(10)
        elif e == "r":
            out.append(13)
        elif e == "t":
            out.append(9)
        elif e == "v":
            out.append(11)
        elif e == "x":
            v = 0
            k = 0
            while k < 4 and i < n and _hex(body[i]) >= 0:
                v = v * 16 + _hex(body[i])
                i += 1
                k += 1
            if k == 0:
                return None
            out.append(v)
        elif e == "u":
            v = _hex_run(body, i, 4)
            if v < 0:
                return None
            out.append(v)
            i += 4
        elif e == "U":
            v = _hex_run(body, i, 8)
            if v < 0 or v > 0x10FFFF:
                return None
            out.append(v)
            i += 8
        else:
            return None
    return out


# ------------------------------------------------------------------------------------- Java
def read_java_string(lit: str) -> Optional[List[int]]:
    # pass 1 (JLS 3.3): unicode escapes; a backslash is eligible iff preceded by an even number of backslashes
    src: List[int] = []
    i = 0
    n = len(lit)
    backslashes = 0
    while i < n:
        c = lit[i]
        if c == "\\" and backslashes % 2 == 0 and i + 1 < n and lit[i + 1] == "u":
            j = i + 1
            while j < n and lit[j] == "u":
                j += 1
            v = _hex_run(lit, j, 4)
            if v < 0:
                return None
            src.append(v)
            i = j + 4
            backslashes = 0
            continue
        if c == "\\":
            backslashes += 1
        else:
            backslashes = 0
        src.append(ord(c))
        i += 1
    # pass 2 (JLS 3.10.5/6)
    if len(src) < 2 or src[0] != 34 or src[-1] != 34:
        return None
    body = src[1:-1]
    out: List[int] = []
    i = 0
    n = len(body)
    while i < n:
        c = body[i]
        if c == 34 or c == 10 or c == 13:
            return None
        if c != 92:
            out.append(c)
            i += 1
            continue
        if i + 1 >= n:
            return None
        e = body[i + 1]
        i += 2
        if e == 98:
            out.append(8)
        elif e == 116:
            out.append(9)
        elif e == 110:
            out.append(10)
        elif e == 102:
            out.append(12)
        elif e == 114:
            out.append(13)
        elif e == 115:
            out.append(32)
        elif e == 34 or e == 39 or e == 92:
            out.append(e)
        elif 48 <= e <= 55:
            v = e - 48
            maxd = 2 if e <= 51 else 1
            k = 0
            while k < maxd and i < n and 48 <= body[i] <= 55:
                v = v * 8 + body[i] - 48
                i += 1
                k += 1
            out.append(v)
        else:
            return None
    return out


# ------------------------------------------------------------------------------------- ECMAScript / TypeScript
def _read_es_body(body: str, quote: str, template: bool) -> Optional[List[int]]:
    out: List[int] = []
    i = 0
    n = len(body)
    while i < n:
        c = body[i]
        if c == quote:
            return None
        if not template and (c == "\n" or c == "\r"):
            return None
        if template and c == "$" and i + 1 < n and body[i + 1] == "{":
            return None  # starts a substitution
        if template and c == "\r":
            # TV of <CR><LF> and of <CR> is <LF>
            out.append(10)
            i += 2 if (i + 1 < n and body[i + 1] == "\n") else 1
            continue
        if c != "\\":
            out.append(ord(c))
            i += 1
            continue
        if i + 1 >= n:
            return None
        e = body[i + 1]
        i += 2
        if e == "b":
            out.append(8)
        elif e == "t":
            out.append(9)
        elif e == "n":
            out.append(10)
        elif e == "v":
            out.append(11)
        elif e == "f":
            out.append(12)
        elif e == "r":
            out.append(13)
        elif e == "0":
            if i < n and "0" <= body[i] <= "9":
                return None  # legacy octal: not in strict mode / templates
            out.append(0)
        elif "1" <= e <= "9":
            return None
        elif e == "x":
            v = _hex_run(body, i, 2)
            if v < 0:
                return None
            out.append(v)
            i += 2
        elif e == "u":
            if i < n and body[i] == "{":
                j = i + 1
                v = 0
                k = 0
                while j < n and _hex(body[j]) >= 0:
                    v = v * 16 + _hex(body[j])
                    if v > 0x10FFFF:
                        return None
                    j += 1
                    k += 1
                if k == 0 or j >= n or body[j] != "}":
                    return None
                out.append(v)
                i = j + 1
            else:
                v = _hex_run(body, i, 4)
                if v < 0:
                    return None
                out.append(v)
                i += 4
        elif e == "\n" or e == "\u2028" or e == "\u2029":
            pass  # line continuation
        elif e == "\r":
            if i < n and body[i] == "\n":
                i += 1
        else:
            out.append(ord(e))  # NonEscapeCharacter denotes itself
    return out


def read_ts_string(lit: str) -> Optional[List[int]]:
    if len(lit) < 2 or lit[0] != '"' or lit[-1] != '"':
        return None
    return _read_es_body(lit[1:-1], '"', False)


def read_ts_template(lit: str) -> Optional[List[int]]:
    if len(lit) < 2 or lit[0] != "`" or lit[-1] != "`":
        return None
    return _read_es_body(lit[1:-1], "`", True)


# ------------------------------------------------------------------------------------- Go
def read_go_string(lit: str) -> Optional[List[int]]:
    """interpreted_string_lit; a byte >= 0x80 written with \\x / octal is returned as -byte."""
    if len(lit) < 2 or lit[0] != '"' or lit[-1] != '"':
        return None
    body = lit[1:-1]
    out: List[int] = []
    i = 0
    n = len(body)
    while i < n:
        c = body[i]
        if c == '"' or c == "\n" or c == "\x00":
            return None  # gc rejects NUL in source text
        if c != "\\":
            out.append(ord(c))
            i += 1
            continue
        if i + 1 >= n:
            return None
        e = body[i + 1]
        i += 2
        if e == "a":
            out.append(7)
        elif e == "b":
            out.append(8)
        elif e == "f":
            out.append(12)
        elif e == "n":
            out.append(10)
        elif e == "r":
            out.append(13)
        elif e == "t":
            out.append(9)
        elif e == "v":
            out.append(11)
        elif e == "\\" or e == '"':
            out.append(ord(e))
        elif e == "x":
            v = _hex_run(body, i, 2)  # exactly two hexadecimal digits
            if v < 0:
                return None
            out.append(v if v < 128 else -v)
            i += 2
        elif "0" <= e <= "7":
            if i + 2 > n or not ("0" <= body[i] <= "7") or not ("0" <= body[i + 1] <= "7"):
                return None  # exactly three octal digits
            v = (ord(e) - 48) * 64 + (ord(body[i]) - 48) * 8 + ord(body[i + 1]) - 48
            if v > 255:
                return None
            out.append(v if v < 128 else -v)
            i += 2
        elif e == "u":
            v = _hex_run(body, i, 4)
            if v < 0 or _is_surrogate(v):
                return None
            out.append(v)
            i += 4
        elif e == "U":
            v = _hex_run(body, i, 8)
            if v < 0 or v > 0x10FFFF or _is_surrogate(v):
                return None
            out.append(v)
            i += 8
        else:
            return None  # includes \' which is only legal in rune literals
    return out
