"""Things shared by harnesses, workers, replays and the runner.  Does not import CrossHair."""
from __future__ import annotations

import hashlib
import importlib
import json
import os
import pathlib
import re
import traceback
from typing import Any, Dict, List, Optional, Tuple

VERIF = pathlib.Path(__file__).resolve().parent.parent
REPO = pathlib.Path(os.environ.get("VERIF_REPO", "/repo"))

EXIT_OK = 0
EXIT_VIOLATION = 1
EXIT_HARNESS_ERROR = 2


class Violation(Exception):
    """Raised by a harness where the property's assertion fails."""

    def __init__(self, key: str, msg: str = "") -> None:
        super().__init__(f"{key}: {msg}")
        self.key = key
        self.msg = msg


class AssumptionFailed(Exception):
    """Raised by ``assume`` in a concrete (replay) run."""


_IGNORE_EXC: Any = None  # set to crosshair.util.IgnoreAttempt by the symbolic worker


def assume(cond: Any) -> None:
    if not cond:
        if _IGNORE_EXC is not None:
            raise _IGNORE_EXC("assumption")
        raise AssumptionFailed()


def symbolic() -> bool:
    """True inside a symbolic worker (messages must then not format symbolic values: it forks paths)."""
    return _IGNORE_EXC is not None


def fail(key: str, fmt: str = "", *args: Any) -> None:
    """Raise a Violation; the message is only rendered in concrete (replay) runs."""
    if symbolic():
        raise Violation(key, "")
    args = tuple(a() if callable(a) else a for a in args)  # lazy pieces are only computed in concrete runs
    raise Violation(key, (fmt % args) if args else fmt)


def realize(x: Any) -> Any:
    """Concretize a symbolic value (adds ``x == value`` to the path); identity in concrete runs."""
    if symbolic():
        from crosshair.core import deep_realize
        return deep_realize(x)
    return x


def witness(*xs: Any) -> Any:
    """ONE concrete representative of the current path class: the path is detached from the search tree first, so the
    realization does not make the explorer enumerate every other value of the class (``realize`` does: each value becomes
    a branch).  Must be the last symbolic action of a harness: forks after it are not explored."""
    if not symbolic():
        return xs if len(xs) != 1 else xs[0]
    from crosshair.core import deep_realize
    from crosshair.statespace import context_statespace
    context_statespace().detach_path()
    out = tuple(deep_realize(x) for x in xs)
    return out if len(out) != 1 else out[0]


def pin_int(x: Any, lo: int, hi: int) -> int:
    """Concretize a symbolic int known to lie in [lo, hi] by one explicit fork per value.  Cheaper and more predictable than
    ``realize`` (CrossHair's model-value search visits the same value combination several times once a few of them nest)."""
    if not symbolic():
        return x
    for v in range(lo, hi + 1):
        if x == v:
            return v
    assume(False)
    raise AssertionError("unreachable")


def untraced(fn: Any, *args: Any) -> Any:
    """Call ``fn`` on concrete values with CrossHair's tracing switched off (plain CPython speed)."""
    if symbolic():
        from crosshair.tracers import NoTracing
        with NoTracing():
            return fn(*args)
    return fn(*args)


def shard_spec(mod: Any, tier: str, index: int) -> Dict[str, Any]:
    """The shard description: from the file the runner wrote (computing the shard list can be expensive), else computed."""
    path = os.environ.get("VF_SHARDS_FILE")
    if path and os.path.exists(path):
        doc = json.load(open(path))
        if doc.get("module") == mod.__name__ and doc.get("tier") == tier:
            return doc["shards"][index]
    return mod.shards(tier)[index]


def exception_key(exc: BaseException) -> str:
    """``<ExcType>@<file>:<function>`` of the innermost frame that lies in /repo."""
    tb = traceback.extract_tb(exc.__traceback__)
    where = "?"
    for fr in reversed(tb):
        fn = fr.filename.replace("\\", "/")
        if "/aas_core_codegen/" in fn and "/site-packages/" not in fn:
            where = fn.split("/aas_core_codegen/", 1)[1] + ":" + fr.name
            break
    else:
        for fr in reversed(tb):
            if "/site-packages/" not in fr.filename and "/lib/python" not in fr.filename:
                where = os.path.basename(fr.filename) + ":" + fr.name
                break
    extra = ""
    if type(exc).__name__ == "ViolationError":
        lines = [l.strip() for l in str(exc).splitlines() if l.strip()]
        if lines:
            head = lines[0]
            func = head.rsplit(" in ", 1)[1].rstrip(":") if " in " in head else ""
            cond = lines[1] if len(lines) > 1 else ""
            extra = f"[{func}: {cond[:70]}]"
    return f"{type(exc).__name__}@{where}{extra}"


def file_sha(path: str) -> str:
    return hashlib.sha256(pathlib.Path(path).read_bytes()).hexdigest()[:16]


def describe_functions(names: List[str]) -> List[Dict[str, str]]:
    """Resolve ``module.attr[.attr]`` names to source files under /repo and hash them."""
    import inspect

    out = []
    for name in names:
        parts = name.split(".")
        obj: Any = None
        src = None
        for i in range(len(parts), 0, -1):
            try:
                obj = importlib.import_module(".".join(parts[:i]))
            except Exception:
                continue
            try:
                for p in parts[i:]:
                    obj = getattr(obj, p)
                src = inspect.getsourcefile(inspect.unwrap(obj)) if not inspect.ismodule(obj) else obj.__file__
            except Exception as e:  # attribute vanished: say so, do not hide
                src = None
            break
        if src is None:
            out.append({"function": name, "file": "UNRESOLVED", "sha256_16": ""})
        else:
            out.append({"function": name, "file": str(src), "sha256_16": file_sha(src)})
    return out


# --- known findings -------------------------------------------------------------------
def load_known_findings() -> List[Dict[str, Any]]:
    p = VERIF / "known_findings.json"
    if not p.exists():
        return []
    return json.loads(p.read_text())["findings"]


def match_known(property_id: str, key: str, findings: List[Dict[str, Any]]) -> Optional[Dict[str, Any]]:
    """An *open* finding whose key matches exactly (or by its ``key_regex``)."""
    for f in findings:
        if f["property"] != property_id or f.get("status") != "open":
            continue
        if f.get("key") == key:
            return f
        rx = f.get("key_regex")
        if rx and re.fullmatch(rx, key):
            return f
    return None


# Mutation runs (VERIF_REPO=<scratch worktree> VERIF_OUT=<dir>) must not overwrite the evidence of the real tree.
_OUT = pathlib.Path(os.environ["VERIF_OUT"]) if os.environ.get("VERIF_OUT") else VERIF


def write_evidence(property_id: str, doc: Dict[str, Any]) -> None:
    d = _OUT / "evidence"
    d.mkdir(exist_ok=True, parents=True)
    (d / f"{property_id}.json").write_text(json.dumps(doc, indent=1, ensure_ascii=True) + "\n")


def write_replay(property_id: str, doc: Dict[str, Any]) -> str:
    d = _OUT / "replays"
    d.mkdir(exist_ok=True, parents=True)
    h = hashlib.sha256(json.dumps(doc, sort_keys=True).encode()).hexdigest()[:12]
    p = d / f"{property_id}-{h}.json"
    p.write_text(json.dumps(doc, indent=1, ensure_ascii=True) + "\n")
    return str(p)


# --- stub for dict lookups with a symbolic key -------------------------------------------------------------------
import collections.abc as _abc


class ScanMapping(_abc.Mapping):
    """A mapping whose lookups are a linear scan with ``==`` (a real dict hashes, i.e. realizes, a symbolic key)."""

    def __init__(self, d: Any) -> None:
        self._items = list(d.items())

    def __getitem__(self, key: Any) -> Any:
        for k, v in self._items:
            if key == k:
                return v
        raise KeyError(key)

    def get(self, key: Any, default: Any = None) -> Any:
        for k, v in self._items:
            if key == k:
                return v
        return default

    def __contains__(self, key: object) -> bool:
        for k, _ in self._items:
            if key == k:
                return True
        return False

    def __iter__(self) -> Any:
        return iter([k for k, _ in self._items])

    def __len__(self) -> int:
        return len(self._items)
