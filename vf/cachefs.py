"""
In-memory file system + stubs for the model cache of run.load_model (C23, C24).

``CacheFs`` records every operation with the run that issued it; ``CPath`` stands in for pathlib.Path;
``install(run_module, fs)`` replaces ``pathlib``, ``pickle``, ``uuid`` and the front end inside ``run``.
The front end becomes an uninterpreted function of the model text: the symbol table it "computes" is tagged with
the text it was computed from, so that a stale or foreign cache entry is visible to the oracle.
"""
from __future__ import annotations

import contextlib
from typing import Any, Callable, Dict, Iterator, List, Optional, Tuple

from vf.stubs import Anything

CACHE_PREFIX = "/tmp-dir/"


class Crash(BaseException):
    """Raised by the fake file system at the crash point of a run (skips ``finally`` blocks when the harness says so)."""


class Tagged(Anything):
    def __init__(self, tag: Any, kind: str) -> None:
        object.__setattr__(self, "tag", tag)
        object.__setattr__(self, "kind", kind)


class Box:
    """What pickle.dump writes: the object itself plus a completeness flag (a crashed write leaves a partial box)."""

    def __init__(self, obj: Any, complete: bool) -> None:
        self.obj = obj
        self.complete = complete


class CacheFs:
    def __init__(self) -> None:
        self.files: Dict[str, Any] = {}   # path text -> content (str for the model, Box for pickles)
        self.dirs = {"/", "/in", "/out", "/tmp-dir"}
        self.ops: List[Tuple[int, str, str]] = []  # (run id, operation, path)
        self.run_id = 0
        self.uuid_counter = 0
        self.hook: Optional[Callable[[str, str], None]] = None  # called before every operation (scheduling / crashes)

    def op(self, name: str, path: str) -> None:
        if self.hook is not None:
            self.hook(name, path)
        self.ops.append((self.run_id, name, path))


class _Writer:
    def __init__(self, fs: CacheFs, path: str) -> None:
        self.fs, self.path = fs, path

    def __enter__(self) -> "_Writer":
        return self

    def __exit__(self, *exc: Any) -> None:
        return None


class _Reader(_Writer):
    pass


class CPath:
    def __init__(self, fs: CacheFs, text: str) -> None:
        self.fs, self.text = fs, text

    def __truediv__(self, other: Any) -> "CPath":
        return CPath(self.fs, self.text.rstrip("/") + "/" + str(other))

    @property
    def parent(self) -> "CPath":
        return CPath(self.fs, self.text.rpartition("/")[0] or "/")

    @property
    def name(self) -> str:
        return self.text.rpartition("/")[2]

    def with_suffix(self, suffix: str) -> "CPath":
        head, dot, _ = self.text.rpartition(".")
        return CPath(self.fs, (head if dot else self.text) + suffix)

    def exists(self) -> bool:
        self.fs.op("exists", self.text)
        return self.text in self.fs.files or self.text in self.fs.dirs

    def is_file(self) -> bool:
        return self.text in self.fs.files

    def is_dir(self) -> bool:
        return self.text in self.fs.dirs

    def mkdir(self, parents: bool = False, exist_ok: bool = False) -> None:
        self.fs.op("mkdir", self.text)
        cur = self.text
        while cur and cur not in self.fs.dirs:
            self.fs.dirs.add(cur)
            cur = cur.rpartition("/")[0]

    def read_text(self, encoding: Optional[str] = None) -> Any:
        self.fs.op("read_text", self.text)
        return self.fs.files[self.text]

    def write_text(self, data: Any, encoding: Optional[str] = None) -> int:
        self.fs.op("write_text", self.text)
        self.fs.files[self.text] = data
        return len(data)

    def open(self, mode: str = "r") -> Any:
        if "w" in mode:
            self.fs.op("open_wb", self.text)
            self.fs.files[self.text] = Box(None, False)  # created, nothing written yet
            return _Writer(self.fs, self.text)
        self.fs.op("open_rb", self.text)
        if self.text not in self.fs.files:
            raise FileNotFoundError(self.text)
        return _Reader(self.fs, self.text)

    def rename(self, target: "CPath") -> "CPath":
        self.fs.op("rename", self.text + " -> " + target.text)
        if self.text not in self.fs.files:
            raise FileNotFoundError(self.text)
        self.fs.files[target.text] = self.fs.files.pop(self.text)
        return target

    def unlink(self, missing_ok: bool = False) -> None:
        self.fs.op("unlink", self.text)
        if self.text in self.fs.files:
            del self.fs.files[self.text]
        elif not missing_ok:
            raise FileNotFoundError(self.text)

    def glob(self, pattern: str) -> List["CPath"]:
        return []

    def as_posix(self) -> str:
        return self.text

    def __str__(self) -> str:
        return self.text

    def __format__(self, spec: str) -> str:
        return self.text

    def __fspath__(self) -> str:
        return self.text


class _PathlibProxy:
    def __init__(self, fs: CacheFs) -> None:
        self.fs = fs

    def Path(self, text: Any) -> CPath:  # noqa: N802
        return CPath(self.fs, str(text))


class _TempfileProxy:
    @staticmethod
    def gettempdir() -> str:
        return "/tmp-dir"


class _PickleProxy:
    def __init__(self, fs: CacheFs) -> None:
        self.fs = fs

    def dump(self, obj: Any, fid: Any) -> None:
        self.fs.op("dump", fid.path)
        self.fs.files[fid.path] = Box(obj, True)

    def load(self, fid: Any) -> Any:
        self.fs.op("load", fid.path)
        box = self.fs.files[fid.path]
        if not isinstance(box, Box) or not box.complete:
            raise EOFError("Ran out of input")  # what pickle does on a truncated file
        return box.obj


class _UuidProxy:
    def __init__(self, fs: CacheFs) -> None:
        self.fs = fs

    def uuid4(self) -> str:
        self.fs.uuid_counter += 1
        return f"uuid{self.fs.uuid_counter}"


class _ParseProxy:
    def __init__(self, fs: CacheFs) -> None:
        self.fs = fs

    def source_to_atok(self, source: Any) -> Any:
        self.fs.op("front-end", "parse")
        return Tagged(source, "atok"), None

    def check_expected_imports(self, atok: Any) -> List[str]:
        return []

    def atok_to_symbol_table(self, atok: Any) -> Any:
        return Tagged(atok.tag, "parsed"), None


class _IntermediateProxy:
    def __init__(self, real: Any) -> None:
        self._real = real

    def translate(self, parsed_symbol_table: Any, atok: Any) -> Any:
        return Tagged(parsed_symbol_table.tag, "table"), None

    def __getattr__(self, name: str) -> Any:
        return getattr(self._real, name)


@contextlib.contextmanager
def installed(run_module: Any, fs: CacheFs) -> Iterator[None]:
    names = ["pathlib", "tempfile", "pickle", "uuid", "parse", "intermediate"]
    saved = {n: getattr(run_module, n) for n in names}
    try:
        run_module.pathlib = _PathlibProxy(fs)
        run_module.tempfile = _TempfileProxy()
        run_module.pickle = _PickleProxy(fs)
        run_module.uuid = _UuidProxy(fs)
        run_module.parse = _ParseProxy(fs)
        run_module.intermediate = _IntermediateProxy(saved["intermediate"])
        yield
    finally:
        for n, v in saved.items():
            setattr(run_module, n, v)
