"""Loading meta-model texts through the REAL front end (concretely), shared by the model-level harnesses."""
from __future__ import annotations

import textwrap
from typing import Any, List, Optional, Tuple

from aas_core_codegen import intermediate, parse
from aas_core_codegen.common import Error, LinenoColumner

HEADER = '''\
"""Meta-model for verification."""
'''

FOOTER = '''

__version__ = "V0"
__xml_namespace__ = "https://example.invalid/verif"
'''


def wrap(body: str) -> str:
    """A complete meta-model text around the class definitions in ``body``."""
    return HEADER + textwrap.dedent(body) + FOOTER


def front_end(text: str) -> Tuple[Optional[intermediate.SymbolTable], Optional[str], Any]:
    """(symbol table, None, atok) or (None, rendered error, atok)."""
    atok, exc = parse.source_to_atok(source=text)
    if exc is not None:
        return None, f"syntax: {exc}", None
    import_errors = parse.check_expected_imports(atok=atok)
    if import_errors:
        return None, "imports: " + "; ".join(import_errors), atok
    lc = LinenoColumner(atok=atok)
    pst, error = parse.atok_to_symbol_table(atok=atok)
    if error is not None:
        return None, lc.error_message(error), atok
    st, error = intermediate.translate(parsed_symbol_table=pst, atok=atok)
    if error is not None:
        return None, lc.error_message(error), atok
    return st, None, atok


def must_load(text: str) -> intermediate.SymbolTable:
    st, err, _ = front_end(text)
    if st is None:
        raise AssertionError("the template meta-model is rejected by the front end:\n" + str(err))
    return st


XSD_ROOT_ELEMENT = """<xs:schema
        xmlns:xs="http://www.w3.org/2001/XMLSchema"
        xmlns="https://example.invalid/verif"
        elementFormDefault="qualified"
        targetNamespace="https://example.invalid/verif"
>
    <xs:element name="something" type="something_t" />
</xs:schema>"""
