"""
A strict reader of XML Schema regular expressions (XSD 1.0 Part 2, appendix F) into the AST of vf.rx.

Strict means: what the XSD grammar does not define is an error (``XsdRegexError``), in particular the escapes ``\\$``,
``\\xHH``, ``\\uHHHH`` and ``\\UHHHHHHHH`` which Python knows and XSD does not.  ``^`` and ``$`` are ordinary
characters outside of character classes (XSD patterns are implicitly anchored).  Category escapes ``\\p{..}`` and
character-class subtraction are reported as ``Unsupported`` (the generator never emits them).
"""
from __future__ import annotations

from typing import Any, List, Tuple

from vf.rx import MAXCP, Ranges, Unsupported, complement, normalize


class XsdRegexError(Exception):
    pass


SINGLE_ESCAPES = {"n": 10, "r": 13, "t": 9, "\\": 92, "|": 124, ".": 46, "?": 63, "*": 42, "+": 43, "(": 40, ")": 41, "{": 123,
                  "}": 125, "-": 45, "[": 91, "]": 93, "^": 94}
_SPACE: Ranges = [(9, 10), (13, 13), (32, 32)]
_DIGIT_ASCII: Ranges = [(48, 57)]  # \d is the Unicode category Nd; only the ASCII part is modelled -> Unsupported if used
METACHARS = set(".\\?*+{}()|[]")


def parse(pattern: str) -> Any:
    pos = [0]
    n = len(pattern)

    def peek() -> str:
        return pattern[pos[0]] if pos[0] < n else ""

    def take() -> str:
        c = peek()
        pos[0] += 1
        return c

    def escape(in_class: bool) -> Ranges:
        c = take()
        if c == "":
            raise XsdRegexError("dangling backslash")
        if c in SINGLE_ESCAPES:
            v = SINGLE_ESCAPES[c]
            return [(v, v)]
        if c == "s":
            return list(_SPACE)
        if c == "S":
            return complement(_SPACE)
        if c in "dDwWiIcC":
            raise Unsupported(f"multi-character escape \\{c}")
        if c in "pP":
            raise Unsupported("category escape")
        raise XsdRegexError(f"\\{c} is not an escape of XML Schema regular expressions (at {pos[0] - 2} in {pattern!r})")

    def char_class() -> Ranges:
        # after '['
        negated = False
        if peek() == "^":
            take()
            negated = True
        ranges: Ranges = []
        first = True
        while True:
            c = peek()
            if c == "":
                raise XsdRegexError("unterminated character class")
            if c == "]" and not first:
                take()
                break
            if c == "[":
                raise XsdRegexError("'[' inside a character class must be escaped")
            if c == "-" and pattern[pos[0] + 1: pos[0] + 2] == "[":
                raise Unsupported("character class subtraction")
            if c == "\\":
                take()
                item = escape(True)
                single = len(item) == 1 and item[0][0] == item[0][1]
            else:
                take()
                if c == "]" and first:
                    raise XsdRegexError("empty character class / unescaped ']'")
                item = [(ord(c), ord(c))]
                single = True
            first = False
            if single and peek() == "-" and pattern[pos[0] + 1: pos[0] + 2] not in ("]", ""):
                take()
                e = peek()
                if e == "\\":
                    take()
                    end_item = escape(True)
                    if not (len(end_item) == 1 and end_item[0][0] == end_item[0][1]):
                        raise XsdRegexError("range end is a multi-character escape")
                    hi = end_item[0][0]
                elif e == "[":
                    raise Unsupported("character class subtraction")
                else:
                    take()
                    hi = ord(e)
                lo = item[0][0]
                if lo > hi:
                    raise XsdRegexError(f"reversed range in {pattern!r}")
                ranges.append((lo, hi))
            else:
                ranges.extend(item)
        ranges = normalize(ranges)
        return complement(ranges) if negated else ranges

    def quantifier(atom: Any) -> Any:
        c = peek()
        if c == "?":
            take()
            return ("rep", atom, 0, 1)
        if c == "*":
            take()
            return ("rep", atom, 0, None)
        if c == "+":
            take()
            return ("rep", atom, 1, None)
        if c == "{":
            take()
            digits = ""
            while peek().isdigit() and peek().isascii():
                digits += take()
            if digits == "":
                raise XsdRegexError("quantifier without a minimum")
            lo = int(digits)
            hi: Any = lo
            if peek() == ",":
                take()
                digits = ""
                while peek().isdigit() and peek().isascii():
                    digits += take()
                hi = int(digits) if digits else None
            if take() != "}":
                raise XsdRegexError("unterminated quantifier")
            if hi is not None and hi < lo:
                raise XsdRegexError("reversed quantifier bounds")
            return ("rep", atom, lo, hi)
        return atom

    def branch() -> Any:
        items: List[Any] = []
        while True:
            c = peek()
            if c == "" or c == "|" or c == ")":
                break
            if c == "(":
                take()
                if peek() == "?":
                    raise XsdRegexError("(? ... ) groups are not XML Schema syntax")
                inner = regexp()
                if take() != ")":
                    raise XsdRegexError("unbalanced parenthesis")
                atom = inner
            elif c == "[":
                take()
                atom = ("set", char_class())
            elif c == ".":
                take()
                atom = ("set", complement([(10, 10), (13, 13)]))
            elif c == "\\":
                take()
                atom = ("set", normalize(escape(False)))
            elif c in "?*+{}]":
                raise XsdRegexError(f"unexpected metacharacter {c!r} at {pos[0]} in {pattern!r}")
            else:
                take()
                atom = ("set", [(ord(c), ord(c))])
            items.append(quantifier(atom))
        return ("cat", items)

    def regexp() -> Any:
        branches = [branch()]
        while peek() == "|":
            take()
            branches.append(branch())
        return branches[0] if len(branches) == 1 else ("alt", branches)

    ast = regexp()
    if pos[0] != n:
        raise XsdRegexError(f"unbalanced ')' at {pos[0]} in {pattern!r}")
    return ast


# the characters of an XML document (XML 1.0 production [2]) without line breaks
XML_CHARS_NO_LINE_BREAKS: Ranges = [(9, 9), (0x20, 0xD7FF), (0xE000, 0xFFFD), (0x10000, MAXCP)]
