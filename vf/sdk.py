"""
The generated Python SDK as an object of symbolic execution.

* ``Sdk(model_text)`` runs the REAL generator (``main.execute(target=python)``) on a meta-model text, imports the
  generated package (types, verification, jsonization, constants, stringification) and ``exec``s the meta-model source
  itself with small shims so that its classes, lambdas and verification functions are available as plain Python
  ("the invariant evaluated as Python").
* ``Pool`` hands out symbolic values (str / int / bool) in a fixed order; ``Sdk.build(cls, pool)`` walks the
  intermediate representation and builds, from the SAME values, an instance of the generated class and an instance of
  the meta-model's own class.
"""
from __future__ import annotations

import atexit
import enum
import importlib
import io
import pathlib
import re
import shutil
import sys
import tempfile
import typing
from typing import Any, Dict, List, Optional, Tuple

from aas_core_codegen import intermediate, main as main_mod
from aas_core_codegen.python import naming as python_naming

from vf.common import assume, symbolic

_ROOT: Optional[pathlib.Path] = None
_COUNTER = [0]


def _root() -> pathlib.Path:
    global _ROOT
    if _ROOT is None:
        _ROOT = pathlib.Path(tempfile.mkdtemp(prefix="verif_sdk_"))
        atexit.register(lambda: shutil.rmtree(str(_ROOT), ignore_errors=True))
        sys.path.insert(0, str(_ROOT / "out"))
    return _ROOT


class GenerationFailed(Exception):
    pass


# ---------------------------------------------------------------------------------------------- shims for the source
class DBC:
    pass


class _Invariant:
    def __init__(self, condition: Any, description: Any) -> None:
        self.condition = condition
        self.description = description


def _shim_invariant(condition: Any, description: Any = None, **kwargs: Any) -> Any:
    def decorator(cls: Any) -> Any:
        own = list(cls.__dict__.get("__own_invariants__", []))
        own.insert(0, _Invariant(condition, description))  # decorators apply bottom-up; keep textual order
        cls.__own_invariants__ = own
        return cls

    return decorator


def _passthrough_decorator(*args: Any, **kwargs: Any) -> Any:
    if len(args) == 1 and callable(args[0]) and not kwargs:
        return args[0]

    def decorator(x: Any) -> Any:
        return x

    return decorator


def _constant_set(values: Any, description: Any = None, superset_of: Any = None, **kwargs: Any) -> Any:
    out = list(values)
    for sub in superset_of or []:
        for v in sub:
            if v not in out:
                out.append(v)
    return out


def _constant_value(value: Any, description: Any = None, **kwargs: Any) -> Any:
    return value


def source_namespace(model_text: str) -> Dict[str, Any]:
    """exec the meta-model (imports removed) with shims; returns its namespace."""
    import ast
    tree = ast.parse(model_text)
    tree.body = [node for node in tree.body if not isinstance(node, (ast.Import, ast.ImportFrom))]
    for node in tree.body:
        if isinstance(node, ast.ClassDef):
            # ``class X(bool, DBC)`` is admitted by the meta-model language, but CPython cannot subclass bool
            node.bases = [b for b in node.bases if not (isinstance(b, ast.Name) and b.id == "bool")]
    # the meta-model language does not prescribe an order of declarations; CPython needs the base classes first
    classes = {node.name: node for node in tree.body if isinstance(node, ast.ClassDef)}
    emitted: typing.Set[str] = set()
    body: List[Any] = []

    def emit(node: Any) -> None:
        if node.name in emitted:
            return
        emitted.add(node.name)
        for base in node.bases:
            if isinstance(base, ast.Name) and base.id in classes:
                emit(classes[base.id])
        body.append(node)

    for node in tree.body:
        if isinstance(node, ast.ClassDef):
            emit(node)
        else:
            body.append(node)
    tree.body = body
    ns: Dict[str, Any] = {
        "DBC": DBC, "Enum": enum.Enum, "List": typing.List, "Optional": typing.Optional, "Set": typing.Set,
        "match": re.match, "invariant": _shim_invariant, "abstract": _passthrough_decorator,
        "implementation_specific": _passthrough_decorator, "verification": _passthrough_decorator,
        "non_mutating": _passthrough_decorator, "serialization": _passthrough_decorator,
        "ensure": _passthrough_decorator, "require": _passthrough_decorator,
        "constant_set": _constant_set, "constant_str": _constant_value, "constant_int": _constant_value,
        "constant_bool": _constant_value, "constant_float": _constant_value, "constant_bytearray": _constant_value,
        "__name__": "meta_model_source",
    }
    exec(compile(tree, "<meta-model>", "exec"), ns)  # noqa: S102
    return ns


# ---------------------------------------------------------------------------------------------- pool of symbolic values
class Pool:
    """Symbolic values in a fixed order; running out of values is an assumption failure (outside the bound)."""

    def __init__(self, strs: List[Any], ints: List[Any], bools: List[Any], max_str: int = 2) -> None:
        self.strs, self.ints, self.bools = list(strs), list(ints), list(bools)
        self.max_str = max_str
        self.used = [0, 0, 0]
        self.exhausted = False
        # structure_only: primitive values and enumeration literals are fixed (only presence of optionals, list lengths
        # and the classes chosen for abstract slots stay symbolic) -- for properties about the SHAPE of an instance graph
        self.structure_only = False

    def str(self) -> Any:
        if self.used[0] >= len(self.strs):
            self.exhausted = True
            return "x"
        v = self.strs[self.used[0]]
        self.used[0] += 1
        assume(len(v) <= self.max_str)
        return v

    def int(self) -> Any:
        if self.used[1] >= len(self.ints):
            self.exhausted = True
            return 1
        v = self.ints[self.used[1]]
        self.used[1] += 1
        return v

    def bool(self) -> Any:
        if self.used[2] >= len(self.bools):
            self.exhausted = True
            return False
        v = self.bools[self.used[2]]
        self.used[2] += 1
        return True if v else False  # forks here: the caller branches on it anyway

    def finish(self) -> None:
        """Unused pool values are pinned so that they do not multiply paths."""
        for v in self.strs[self.used[0]:]:
            assume(len(v) == 0)
        for v in self.ints[self.used[1]:]:
            assume(v == 0)
        for v in self.bools[self.used[2]:]:
            assume(not v)


class Sdk:
    def __init__(self, model_text: str, name: Optional[str] = None, generate: bool = True,
                 snippets_from: Optional[pathlib.Path] = None) -> None:
        _COUNTER[0] += 1
        self.pkg = name or f"sdk{_COUNTER[0]}"
        self.text = model_text
        if not generate:
            # source level only: the front end and the exec'd meta-model, no generated package
            self.types = self.verification = self.jsonization = self.constants = self.stringification = None
            from vf.models import front_end
            st, err, atok = front_end(model_text)
            assert st is not None, err
            self.symbol_table = st
            self.source = source_namespace(model_text)
            return
        root = _root()
        model_path = root / f"{self.pkg}_meta_model.py"
        model_path.write_text(model_text, encoding="utf-8")
        snippets = root / f"{self.pkg}_snippets"
        if snippets_from is not None:
            # implementation-specific snippets which the model needs (the repository's own, for its own models)
            import shutil
            shutil.copytree(snippets_from, snippets, dirs_exist_ok=True)
        snippets.mkdir(exist_ok=True)
        (snippets / "qualified_module_name.txt").write_text(self.pkg, encoding="utf-8")
        out = root / "out"
        out.mkdir(exist_ok=True)
        stdout, stderr = io.StringIO(), io.StringIO()
        params = main_mod.Parameters(model_path=model_path, target=main_mod.Target.PYTHON, snippets_dir=snippets,
                                     output_dir=out, cache_model=False)
        rc = main_mod.execute(params=params, stdout=stdout, stderr=stderr)
        if rc != 0:
            raise GenerationFailed(stderr.getvalue())
        self.out_dir = out
        importlib.invalidate_caches()
        self.types = importlib.import_module(f"{self.pkg}.types")
        self.verification = importlib.import_module(f"{self.pkg}.verification")
        self.jsonization = importlib.import_module(f"{self.pkg}.jsonization")
        self.constants = importlib.import_module(f"{self.pkg}.constants")
        self.stringification = importlib.import_module(f"{self.pkg}.stringification")
        from vf.models import front_end
        st, err, atok = front_end(model_text)
        assert st is not None, err
        self.symbol_table: intermediate.SymbolTable = st
        self.source = source_namespace(model_text)

    # ---- names
    def sdk_class(self, cls: intermediate.ClassUnion) -> Any:
        return getattr(self.types, python_naming.class_name(cls.name))

    def sdk_enum(self, enumeration: intermediate.Enumeration) -> Any:
        return getattr(self.types, python_naming.enum_name(enumeration.name))

    def concrete_classes(self) -> List[intermediate.ConcreteClass]:
        return [c for c in self.symbol_table.classes if isinstance(c, intermediate.ConcreteClass)]

    # ---- builders
    def value(self, type_annotation: Any, pool: Pool, depth: int, list_len: int) -> Tuple[Any, Any]:
        """(value for the SDK, value for the meta-model source) of the given type from pool values."""
        ta = type_annotation
        if isinstance(ta, intermediate.OptionalTypeAnnotation):
            if pool.bool():
                return self.value(ta.value, pool, depth, list_len)
            return None, None
        if isinstance(ta, intermediate.PrimitiveTypeAnnotation):
            return self.primitive(ta.a_type, pool)
        if isinstance(ta, intermediate.OurTypeAnnotation):
            ot = ta.our_type
            if isinstance(ot, intermediate.Enumeration):
                if pool.structure_only:
                    return self.default(ta)
                idx = pool.int()
                assume(0 <= idx < len(ot.literals))
                for k, literal in enumerate(ot.literals):
                    if idx == k:
                        return (getattr(self.sdk_enum(ot), python_naming.enum_literal_name(literal.name))
                                if self.types is not None else None,
                                getattr(self.source[ot.name], literal.name))
                raise AssertionError
            if isinstance(ot, intermediate.ConstrainedPrimitive):
                return self.primitive(ot.constrainee, pool)
            if isinstance(ot, (intermediate.AbstractClass, intermediate.ConcreteClass)):
                candidates = [ot] if isinstance(ot, intermediate.ConcreteClass) else []
                candidates += list(ot.concrete_descendants)
                if depth <= 0:
                    pool.exhausted = True
                    return None, None
                idx = 0
                if len(candidates) > 1:
                    idx = pool.int()
                    assume(0 <= idx < len(candidates))
                for k, cand in enumerate(candidates):
                    if idx == k:
                        # lists inside nested instances are kept to at most one item (stated in the bounds)
                        return self.build(cand, pool, depth - 1, min(list_len, 1))
                raise AssertionError
            raise AssertionError(ot)
        if isinstance(ta, intermediate.ListTypeAnnotation):
            n = pool.int()
            assume(0 <= n <= list_len)
            a: List[Any] = []
            b: List[Any] = []
            for k in range(list_len):
                if k < n:
                    x, y = self.value(ta.items, pool, depth, list_len)
                    a.append(x)
                    b.append(y)
            return a, b
        raise AssertionError(ta)

    def primitive(self, a_type: intermediate.PrimitiveType, pool: Pool) -> Tuple[Any, Any]:
        if pool.structure_only:
            return self.default(intermediate.PrimitiveTypeAnnotation(a_type=a_type, parsed=None))  # type: ignore
        if a_type is intermediate.PrimitiveType.STR:
            v = pool.str()
            return v, v
        if a_type is intermediate.PrimitiveType.INT:
            v = pool.int()
            assume(-4 <= v <= 10)
            return v, v
        if a_type is intermediate.PrimitiveType.BOOL:
            v = pool.bool()
            return v, v
        if a_type is intermediate.PrimitiveType.FLOAT:
            v = pool.int()
            assume(-2 <= v <= 2)
            f = 0.5 * 1.0
            for k in range(-2, 3):
                if v == k:
                    return k * 0.5, k * 0.5
            return f, f
        if a_type is intermediate.PrimitiveType.BYTEARRAY:
            n = pool.int()
            assume(0 <= n <= 2)
            for k in range(3):
                if n == k:
                    return bytearray(b"\xff" * k), bytearray(b"\xff" * k)
        raise AssertionError(a_type)

    def default(self, type_annotation: Any) -> Tuple[Any, Any]:
        """A fixed concrete value of the type (for the properties a shard does not look at)."""
        ta = type_annotation
        if isinstance(ta, intermediate.OptionalTypeAnnotation):
            return None, None
        if isinstance(ta, intermediate.ListTypeAnnotation):
            return [], []
        if isinstance(ta, intermediate.OurTypeAnnotation):
            ot = ta.our_type
            if isinstance(ot, intermediate.Enumeration):
                literal = ot.literals[0]
                return (getattr(self.sdk_enum(ot), python_naming.enum_literal_name(literal.name))
                        if self.types is not None else None,
                        getattr(self.source[ot.name], literal.name))
            if isinstance(ot, intermediate.ConstrainedPrimitive):
                return self.default(intermediate.PrimitiveTypeAnnotation(a_type=ot.constrainee, parsed=None))  # type: ignore
            candidates = ([ot] if isinstance(ot, intermediate.ConcreteClass) else []) + list(ot.concrete_descendants)
            return self.build(candidates[0], Pool([], [], []), 0, 0, symbolic_props=[])
        a_type = ta.a_type
        if a_type is intermediate.PrimitiveType.STR:
            return "a", "a"
        if a_type is intermediate.PrimitiveType.INT:
            return 1, 1
        if a_type is intermediate.PrimitiveType.BOOL:
            return True, True
        if a_type is intermediate.PrimitiveType.FLOAT:
            return 0.5, 0.5
        return bytearray(b"\xff"), bytearray(b"\xff")

    def build(self, cls: intermediate.ConcreteClass, pool: Pool, depth: int = 1, list_len: int = 2,
              symbolic_props: Optional[List[str]] = None) -> Tuple[Any, Any]:
        sdk_kwargs: Dict[str, Any] = {}
        src_kwargs: Dict[str, Any] = {}
        for arg in cls.constructor.arguments:
            if symbolic_props is not None and arg.name not in symbolic_props:
                x, y = self.default(arg.type_annotation)
            else:
                x, y = self.value(arg.type_annotation, pool, depth, list_len)
            sdk_kwargs[python_naming.argument_name(arg.name)] = x
            src_kwargs[arg.name] = y
        sdk_instance = self.sdk_class(cls)(**sdk_kwargs) if self.types is not None else None
        src_cls = self.source[cls.name]
        src_instance = object.__new__(src_cls)
        # the meta-model's constructor is plain Python; it is the reference for "what the constructor does"
        src_cls.__init__(src_instance, **src_kwargs)
        return sdk_instance, src_instance

    # ---- reference semantics of the invariants
    def source_invariants(self, our_type: Any) -> List[_Invariant]:
        """Own and inherited invariants of a class / constrained primitive of the meta-model source (ancestors first)."""
        src_cls = self.source[our_type.name]
        out: List[_Invariant] = []
        seen = set()
        for klass in reversed(src_cls.__mro__):
            for inv in klass.__dict__.get("__own_invariants__", []):
                if id(inv) not in seen:
                    seen.add(id(inv))
                    out.append(inv)
        return out
