"""
Runner for sx-based property checks: shards -> worker processes -> merge -> replay -> verdict.

Protocol of a harness module ``harness.Cxx``::

    PROPERTY = "Cxx"
    LEVEL = "model_checking" | "translation_validation"
    def shards(tier) -> [ {"name": str, "params": {...}, "budget_s": float, ...}, ... ]
    def make_harness(params) -> callable with annotated parameters
    def describe(tier) -> {"functions": [...], "bounds": str, "stubs": [...], "assumptions": [...],
                           "rule": str, "outside": str}
    # optional:
    def prepare(tier, workdir) -> None          # e.g. generate an SDK once, before the workers start
    def extra_checks(tier) -> {"violations": [...], "evidence": {...}}   # non-sx parts (rx, bmc, concrete)
    def public_replay(params, args) -> Optional[str]   # second replay through a public entry point
"""
from __future__ import annotations

import concurrent.futures as cf
import importlib
import json
import os
import subprocess
import sys
import tempfile
import time
from typing import Any, Dict, List, Optional

from vf import common

PY = sys.executable
NPROC = int(os.environ.get("VERIF_JOBS", "16"))


def _env() -> Dict[str, str]:
    env = dict(os.environ)
    env["PYTHONHASHSEED"] = "0"
    env["PYTHONPATH"] = str(common.VERIF) + os.pathsep + env.get("PYTHONPATH", "")
    if str(common.REPO) != "/repo":
        env["PYTHONPATH"] = str(common.REPO) + os.pathsep + env["PYTHONPATH"]
    env["PYTHONDONTWRITEBYTECODE"] = "1"
    env["AAS_CORE_CODEGEN_VERIF"] = "1"
    return env


def _run_shard(modname: str, idx: int, tier: str, shard: Dict[str, Any], workdir: str) -> Dict[str, Any]:
    out = os.path.join(workdir, f"shard_{idx}.json")
    budget = float(shard.get("budget_s", 120))
    hard = budget * 3 + 240  # wall clock; generous because the CPU budget is what bounds a shard and the machine may be loaded
    t0 = time.time()
    deadline = float(os.environ.get("VF_DEADLINE", "0") or 0)
    if deadline and t0 > deadline:
        return {"error": None, "paths": 0, "ok": 0, "ignored": 0, "unknown": 0, "unknown_reasons": {}, "labels": {},
                "violations": [], "violation_keys": {}, "samples": [], "exhausted": False, "stopped_by": "tier-wall-cap",
                "cpu_s": 0.0, "solver_queries": 0, "solver_s": 0.0, "shard": shard.get("name", str(idx)), "shard_index": idx,
                "shard_wall_s": 0.0}
    try:
        p = subprocess.run(
            [PY, "-m", "vf.sx", modname, str(idx), tier, out],
            env=_env(), cwd=str(common.VERIF), timeout=hard,
            stdout=subprocess.PIPE, stderr=subprocess.PIPE, text=True,
        )
        if os.path.exists(out):
            res = json.load(open(out))
        else:
            res = {"error": f"worker rc={p.returncode} no output\n{p.stderr[-2000:]}"}
    except subprocess.TimeoutExpired:
        res = {"error": None, "hard_timeout": True, "paths": 0, "ok": 0, "ignored": 0, "unknown": 1,
               "unknown_reasons": {"hard_timeout": 1}, "labels": {}, "violations": [], "violation_keys": {},
               "samples": [], "exhausted": False, "stopped_by": "hard_timeout", "cpu_s": hard, "solver_queries": 0,
               "solver_s": 0.0}
    res.setdefault("shard", shard.get("name", str(idx)))
    res["shard_index"] = idx
    res["shard_wall_s"] = round(time.time() - t0, 2)
    return res


def replay_in_fresh_process(modname: str, idx: int, tier: str, args: Any, params: Any = None) -> Dict[str, Any]:
    with tempfile.NamedTemporaryFile("w", suffix=".json", delete=False) as f:
        json.dump(args, f)
        path = f.name
    env = _env()
    shards_path = None
    if params is not None and idx >= 0:
        # a replay file carries the parameters of its shard: it stays valid when the shard list of the harness changes
        with tempfile.NamedTemporaryFile("w", suffix=".json", delete=False) as f:
            json.dump({"module": modname, "tier": tier, "shards": [{"params": params}]}, f)
            shards_path = f.name
        env["VF_SHARDS_FILE"] = shards_path
        idx = 0
    try:
        p = subprocess.run([PY, "-m", "vf.replay", modname, str(idx), tier, path], env=env,
                           cwd=str(common.VERIF), timeout=600, stdout=subprocess.PIPE, stderr=subprocess.PIPE,
                           text=True)
        last = [l for l in p.stdout.splitlines() if l.startswith("REPLAY ")]
        if not last:
            return {"error": f"replay rc={p.returncode}: {p.stderr[-1500:]}"}
        return json.loads(last[-1][len("REPLAY "):])
    finally:
        os.unlink(path)
        if shards_path is not None:
            os.unlink(shards_path)


def run_property(modname: str, tier: str) -> int:
    t0 = time.time()
    mod = importlib.import_module(modname)
    pid = mod.PROPERTY
    seed = int(os.environ.get("VERIF_SEED", "0"))
    findings = common.load_known_findings()
    workdir = tempfile.mkdtemp(prefix=f"verif_{pid}_")
    harness_errors: List[str] = []
    try:
        if hasattr(mod, "prepare"):
            mod.prepare(tier, workdir)
        shard_list = mod.shards(tier)
        shards_file = os.path.join(workdir, "shards.json")
        with open(shards_file, "w") as f:
            json.dump({"module": modname, "tier": tier, "shards": shard_list}, f)
        os.environ["VF_SHARDS_FILE"] = shards_file
        # wall-clock cap of the whole tier: shards still running (or not yet started) when it is reached stop exploring
        # and are reported as not exhausted -- a thorough run can never take unbounded time
        cap = float(os.environ.get("VERIF_WALL_CAP_S", "480" if tier == "quick" else "3000"))
        os.environ["VF_DEADLINE"] = str(time.time() + cap)
        results: List[Dict[str, Any]] = []
        with cf.ThreadPoolExecutor(max_workers=NPROC) as ex:
            futs = [ex.submit(_run_shard, modname, i, tier, s, workdir) for i, s in enumerate(shard_list)]
            for f in futs:
                results.append(f.result())

        for r in results:
            if r.get("error"):
                harness_errors.append(f"shard {r['shard']}: {r['error']}")

        # ---- merge
        tot = {k: sum(int(r.get(k, 0) or 0) for r in results) for k in
               ("paths", "ok", "ignored", "unknown", "solver_queries")}
        tot_cpu = sum(float(r.get("cpu_s", 0) or 0) for r in results)
        tot_solver = sum(float(r.get("solver_s", 0) or 0) for r in results)
        labels: Dict[str, int] = {}
        unknown_reasons: Dict[str, int] = {}
        for r in results:
            for k, v in (r.get("labels") or {}).items():
                labels[k] = labels.get(k, 0) + v
            for k, v in (r.get("unknown_reasons") or {}).items():
                unknown_reasons[k] = unknown_reasons.get(k, 0) + v
        # shards marked "exploratory" deepen the search beyond the bound that is claimed exhaustively
        core = [r for r, s in zip(results, shard_list) if not s.get("exploratory")]
        expl = [r for r, s in zip(results, shard_list) if s.get("exploratory")]
        all_exhausted = all(r.get("exhausted") for r in core) and not harness_errors
        exhaustive = bool(all_exhausted and sum(int(r.get("unknown", 0) or 0) for r in core) == 0)
        samples = []
        for r in results:
            for s in (r.get("samples") or [])[:2]:
                samples.append({"shard": r["shard"], **s})
        samples = samples[:24]

        # ---- vacuity (reachability twin): some path must run the harness to its end
        twin_ok = True
        for r in results:
            if r.get("error") or r.get("hard_timeout"):
                continue
            if r.get("stopped_by") == "tier-wall-cap":
                continue  # cut short by the wall-clock cap of the tier (reported as not exhausted): says nothing about vacuity
            if r.get("ok", 0) + sum((r.get("violation_keys") or {}).values()) == 0:
                twin_ok = False
                harness_errors.append(f"shard {r['shard']}: vacuous (no path reached the assertion)")

        # ---- violations: replay, classify
        by_key: Dict[str, List[Dict[str, Any]]] = {}
        for r in results:
            for v in r.get("violations") or []:
                by_key.setdefault(v["key"], []).append({**v, "shard_index": r["shard_index"], "shard": r["shard"]})
        confirmed: List[Dict[str, Any]] = []
        not_reproduced: List[Dict[str, Any]] = []
        jobs = []
        with cf.ThreadPoolExecutor(max_workers=NPROC) as ex:
            for key, vs in sorted(by_key.items()):
                for v in vs[:2]:
                    jobs.append((v, ex.submit(replay_in_fresh_process, modname, v["shard_index"], tier, v["args"])))
            for v, fut in jobs:
                rr = fut.result()
                if rr.get("error"):
                    harness_errors.append(f"replay failed to run for {v['key']}: {rr['error']}")
                elif rr.get("violated"):
                    confirmed.append({**v, "replayed_key": rr["key"], "replayed_msg": rr["msg"],
                                      "public": rr.get("public")})
                else:
                    not_reproduced.append(v)
        candidates_cleared = 0
        for v in not_reproduced:
            if v["key"].startswith("candidate:"):
                # a candidate is a path whose witness is DECIDED by the concrete replay (e.g. a pair of names which the naming
                # functions map to one name: whether the generator reports it is only observable on a real meta-model)
                candidates_cleared += 1
                continue
            # a key for which another witness reproduced is fine; else the encoding or a stub is wrong
            if not any(c["key"] == v["key"] for c in confirmed):
                harness_errors.append(f"witness did not reproduce: {v['key']} args={json.dumps(v['args'])[:300]}")

        extra: Dict[str, Any] = {}
        extra_wall = 0.0
        if hasattr(mod, "extra_checks"):
            t_extra = time.time()
            extra = mod.extra_checks(tier) or {}
            extra_wall = round(time.time() - t_extra, 2)
            for v in extra.get("violations", []):
                confirmed.append({"key": v["key"], "msg": v.get("msg", ""), "args": v.get("args"),
                                  "replayed_key": v["key"], "replayed_msg": v.get("msg", ""), "shard": "extra",
                                  "shard_index": -1})
            for e in extra.get("errors", []):
                harness_errors.append(e)

        known_lines: List[str] = []
        new_violations: List[Dict[str, Any]] = []
        seen = set()
        for c in confirmed:
            key = c["replayed_key"]
            if key in seen:
                continue
            seen.add(key)
            kf = common.match_known(pid, key, findings)
            if kf is not None:
                known_lines.append(f"KNOWN-FINDING: property={pid} {kf['what']} [key={key}]")
            else:
                new_violations.append(c)

        for line in known_lines:
            print(line)
        replay_paths = []
        for c in new_violations:
            path = common.write_replay(pid, {"property": pid, "module": modname, "tier": tier,
                                               "shard_index": c["shard_index"], "key": c["replayed_key"],
                                               "msg": c["replayed_msg"], "args": c["args"],
                                               "params": (shard_list[c["shard_index"]]["params"]
                                                          if 0 <= c["shard_index"] < len(shard_list) else None)})
            replay_paths.append(path)
            print(f"VIOLATION property={pid} replay={path}")
            print(f"  key={c['replayed_key']} msg={c['replayed_msg'][:300]!r} args={json.dumps(c['args'])[:300]}")

        desc = mod.describe(tier)
        ev_extra = extra.get("evidence", {})
        coverage = {
            "evaluations": tot["paths"] + int(ev_extra.get("evaluations", 0)),
            "distinct_nontrivial": tot["ok"] + sum(len(v) and 1 for v in by_key.values())
            + int(ev_extra.get("distinct_nontrivial", 0)),
            "rule": desc.get("rule", "") + " | One evaluation = one completed path of the symbolic path tree "
            "(each path is a distinct class of inputs by construction); non-trivial = the path satisfied the "
            "harness' assumptions and ran to the property's assertion (assumption-discarded paths are excluded).",
            "samples": samples or ev_extra.get("samples", []),
            "exhaustive": bool(exhaustive and ev_extra.get("exhaustive", True)),
            "exhaustive_meaning": "every shard's path tree was exhausted with zero unknown paths: the assertion "
            "holds for ALL inputs inside the stated bounds" if exhaustive else
            "NOT exhausted: the verdict is 'no violation among the paths explored', inconclusive beyond them",
            "bounds": desc.get("bounds", ""),
            "outside_the_claim": desc.get("outside", ""),
            "functions_encoded": common.describe_functions(desc.get("functions", [])),
            "stubs": desc.get("stubs", []),
            "paths_ok": tot["ok"],
            "paths_assumption_discarded": tot["ignored"],
            "paths_unknown": tot["unknown"],
            "unknown_reasons": unknown_reasons,
            "path_labels": labels,
            "solver": "z3 " + _z3_version() + " via CrossHair 0.0.110 path exploration",
            "solver_queries": tot["solver_queries"],
            "solver_s": round(tot_solver, 2),
            "cpu_s": round(tot_cpu, 2),
            "shards": [{"name": r["shard"], "paths": r.get("paths", 0), "ok": r.get("ok", 0),
                        "unknown": r.get("unknown", 0), "exhausted": bool(r.get("exhausted")),
                        "stopped_by": r.get("stopped_by"), "cpu_s": r.get("cpu_s"),
                        **({"exploratory": True} if s.get("exploratory") else {})}
                       for r, s in zip(results, shard_list)],
            "exploratory_shards": {"count": len(expl), "exhausted": sum(1 for r in expl if r.get("exhausted")),
                                   "meaning": "shards beyond the exhaustively claimed bound; 'exhaustive' above does not "
                                              "cover them, they only add explored paths"},
            "non_sx_part_wall_s": extra_wall,
            "tier_wall_cap": {"seconds": cap, "shards_stopped_by_it": sum(1 for r in results if r.get("stopped_by") == "tier-wall-cap")},
            "violating_path_classes": {k: sum(int((r.get("violation_keys") or {}).get(k, 0)) for r in results)
                                       for k in by_key},
            "known_findings_observed": known_lines,
            "candidates_decided_by_concrete_replay": {"cleared": candidates_cleared,
                                                      "violating": sum(1 for c in confirmed if c["key"].startswith("candidate:"))},
            "harness_errors": harness_errors,
        }
        for k, v in ev_extra.items():
            if k not in ("evaluations", "distinct_nontrivial", "samples", "exhaustive"):
                coverage[k] = v
        if getattr(mod, "LEVEL", "model_checking") == "translation_validation":
            coverage["programs"] = int(ev_extra.get("programs", len(shard_list)))
            coverage["disagreements_checked"] = len(confirmed) + len(not_reproduced)
        doc = {
            "property_id": pid, "tier": tier, "seed": seed,
            "level": getattr(mod, "LEVEL", "model_checking"),
            "coverage": coverage,
            "assumptions": desc.get("assumptions", []) + [
                "CrossHair's symbolic models of str/int/list/bool and z3 are trusted; icontract re-armed; "
                "PYTHONHASHSEED=0; every witness is replayed in a fresh interpreter without CrossHair"],
            "wall_s": round(time.time() - t0, 2),
            "violations": len(new_violations),
        }
        common.write_evidence(pid, doc)
        print(f"[{pid}] tier={tier} paths={tot['paths']} ok={tot['ok']} unknown={tot['unknown']} "
              f"exhaustive={coverage['exhaustive']} known={len(known_lines)} new_violations={len(new_violations)} "
              f"solver_queries={tot['solver_queries']} wall={doc['wall_s']}s")
        if new_violations:
            return common.EXIT_VIOLATION
        if harness_errors:
            for e in harness_errors:
                print("HARNESS-ERROR:", e[:1500], file=sys.stderr)
            return common.EXIT_HARNESS_ERROR
        return common.EXIT_OK
    finally:
        import shutil
        shutil.rmtree(workdir, ignore_errors=True)


def _z3_version() -> str:
    try:
        import z3
        return z3.get_version_string()
    except Exception:
        return "?"


def main(argv: List[str]) -> int:
    import argparse
    ap = argparse.ArgumentParser()
    ap.add_argument("property")
    ap.add_argument("--tier", default=os.environ.get("VERIF_TIER", "quick"))
    ap.add_argument("--replay", default=None)
    a = ap.parse_args(argv)
    modname = "harness." + a.property
    if a.replay:
        doc = json.load(open(a.replay))
        rr = replay_in_fresh_process(doc["module"], doc["shard_index"], doc["tier"], doc["args"], doc.get("params"))
        print(json.dumps(rr, indent=1))
        if rr.get("violated"):
            print(f"VIOLATION property={doc['property']} replay={a.replay}")
            return 1
        return 0
    return run_property(modname, a.tier)


if __name__ == "__main__":
    sys.exit(main(sys.argv[1:]))
