"""
Fork-free symbolic helpers (usable from harness/oracle code; plain Python in concrete runs).

``ite(c, a, b)``  -- if-then-else on integers as ONE z3 term (``a if c else b`` would fork the path).
``fresh_int(lo, hi)`` / ``constrain(c)`` -- only for the worker's own patches.
"""
from __future__ import annotations

from typing import Any

from vf.common import symbolic

def _var(x: Any) -> Any:
    import z3
    if hasattr(x, "var"):
        return x.var
    if isinstance(x, bool):
        return z3.BoolVal(x)
    if isinstance(x, int):
        return z3.IntVal(x)
    raise TypeError(type(x))


def ite(c: Any, a: Any, b: Any) -> Any:
    if not symbolic():
        return a if c else b
    from crosshair.tracers import NoTracing
    with NoTracing():
        from crosshair.libimpl.builtinslib import SymbolicInt
        import z3
        if isinstance(c, bool):
            return a if c else b
        return SymbolicInt(z3.If(_var(c), _var(a), _var(b)))


def fresh_int(lo: int, hi: int) -> Any:
    """A fresh symbolic integer in [lo, hi] (symbolic runs only)."""
    from crosshair.tracers import NoTracing
    with NoTracing():
        from crosshair.libimpl.builtinslib import SymbolicInt
        from crosshair.statespace import context_statespace
        import z3
        space = context_statespace()
        v = z3.Int(f"vf_fresh{space.uniq()}")
        space.add(z3.And(v >= lo, v <= hi))
        return SymbolicInt(v)


def constrain(c: Any) -> None:
    """Add a constraint to the current path without forking (symbolic runs only)."""
    from crosshair.tracers import NoTracing
    with NoTracing():
        from crosshair.statespace import context_statespace
        context_statespace().add(_var(c))


def regex_match(pattern: str, s: Any, mode: str = "fullmatch") -> Any:
    """
    ``re.fullmatch(pattern, s) is not None`` (or ``re.match``) as ONE solver term for a symbolic ``s`` of fixed length.

    The pattern is read by CPython's own ``re._parser`` (vf.rx.parse_python), compiled to an NFA and the layered
    reachability formula over the code points of ``s`` is built without forking the path (CrossHair's own regex
    support forks per character class).  In concrete runs this is plain ``re``.
    """
    import re
    if not symbolic():
        m = re.fullmatch(pattern, s) if mode == "fullmatch" else re.match(pattern, s)
        return m is not None
    return regex_match_units(pattern, codepoints(s), mode)


def regex_match_units(pattern: str, cps: list, mode: str = "fullmatch") -> Any:
    """Like ``regex_match`` for a subject given as a list of (symbolic) code points / code units."""
    import re
    if not symbolic():
        text = "".join(chr(c) for c in cps)
        return (re.fullmatch(pattern, text) if mode == "fullmatch" else re.match(pattern, text)) is not None
    n = len(cps)
    from crosshair.tracers import NoTracing
    with NoTracing():
        from crosshair.libimpl.builtinslib import SymbolicBool
        import z3
        from vf import rx
        n = int(n)
        key = (pattern, n, mode)
        nfa = _NFA_CACHE.get(key)
        if nfa is None:
            nfa = rx.build(rx.parse_python(pattern), max(n, 1))
            _NFA_CACHE[key] = nfa
        terms = [_var(c) for c in cps]
        if n > 0 and mode != "fullmatch":
            raise NotImplementedError("only fullmatch is needed so far ('$' before a trailing newline needs a case split)")
        f = rx.accept_formula(nfa, terms, "fullmatch", False)
        if n > 0:
            # Python's '$' also matches before a trailing '\n': fullmatch semantics make that irrelevant except for
            # patterns ending in '$' -- handled by the case split below
            f2 = z3.And(terms[-1] == 10, rx.accept_formula(nfa, terms, "fullmatch", True))
            f = z3.Or(z3.And(terms[-1] != 10, f), f2)
        return SymbolicBool(z3.simplify(f))


_NFA_CACHE: dict = {}


def codepoints(s: Any) -> list:
    """
    The code points of a (possibly symbolic) string as a list of ints / symbolic ints.

    ``ord(s[i])`` on a concatenation of concrete and symbolic pieces costs one solver query per index (CrossHair
    compares ``i`` with the symbolic lengths of the pieces); walking the concatenation tree once and realizing the
    length of each symbolic piece (fixed by the harness' assumptions) is two orders of magnitude cheaper.
    """
    if not symbolic():
        return [ord(c) for c in s]
    from vf.common import realize
    from crosshair.tracers import NoTracing
    with NoTracing():
        from crosshair.libimpl.builtinslib import LazyIntSymbolicStr
        from crosshair.simplestructs import SequenceConcatenation
        pieces: list = []
        if type(s) is str:  # (the real type: ``type`` is patched under tracing)
            return [ord(c) for c in s]
        if isinstance(s, LazyIntSymbolicStr):
            stack = [s._codepoints]
            while stack:
                x = stack.pop()
                if isinstance(x, SequenceConcatenation):
                    stack.append(x._second)
                    stack.append(x._first)
                else:
                    pieces.append(x)
        else:
            pieces = None  # type: ignore
    if pieces is None:
        n = realize(len(s))
        return [ord(s[i]) for i in range(n)]
    out: list = []
    for piece in pieces:
        if type(piece) is list:
            out.extend(piece)
        else:
            n = realize(len(piece))
            for i in range(n):
                out.append(piece[i])
    return out


def contains(hay: Any, needle: Any) -> Any:
    """``needle in hay`` as one solver term (CrossHair's own ``in`` forks per candidate position); lengths must be fixed."""
    if not symbolic():
        return needle in hay
    nd = codepoints(needle)
    hy = codepoints(hay)
    n, m = len(nd), len(hy)
    if n == 0:
        return True
    res: Any = False
    for p in range(m - n + 1):
        t: Any = True
        for i in range(n):
            t = t & (hy[p + i] == nd[i])
        res = res | t
    return res
