"""
Fork-free symbolic helpers (usable from harness/oracle code; plain Python in concrete runs).

``ite(c, a, b)``  -- if-then-else on integers as ONE z3 term (``a if c else b`` would fork the path).
``fresh_int(lo, hi)`` / ``constrain(c)`` -- only for the worker's own patches.
"""
from __future__ import annotations

from typing import Any

from vf.common import symbolic

def _var(x: Any) -> Any:
    import z3
    if hasattr(x, "var"):
        return x.var
    if isinstance(x, bool):
        return z3.BoolVal(x)
    if isinstance(x, int):
        return z3.IntVal(x)
    raise TypeError(type(x))


def ite(c: Any, a: Any, b: Any) -> Any:
    if not symbolic():
        return a if c else b
    from crosshair.tracers import NoTracing
    with NoTracing():
        from crosshair.libimpl.builtinslib import SymbolicInt
        import z3
        if isinstance(c, bool):
            return a if c else b
        return SymbolicInt(z3.If(_var(c), _var(a), _var(b)))


def fresh_int(lo: int, hi: int) -> Any:
    """A fresh symbolic integer in [lo, hi] (symbolic runs only)."""
    from crosshair.tracers import NoTracing
    with NoTracing():
        from crosshair.libimpl.builtinslib import SymbolicInt
        from crosshair.statespace import context_statespace
        import z3
        space = context_statespace()
        v = z3.Int(f"vf_fresh{space.uniq()}")
        space.add(z3.And(v >= lo, v <= hi))
        return SymbolicInt(v)


def constrain(c: Any) -> None:
    """Add a constraint to the current path without forking (symbolic runs only)."""
    from crosshair.tracers import NoTracing
    with NoTracing():
        from crosshair.statespace import context_statespace
        context_statespace().add(_var(c))
