"""
An in-memory stand-in for ``pathlib.Path`` whose names and contents may be symbolic strings.

Only the operations the repository performs on paths are modelled (``glob("**/*")``, ``name``, ``is_dir``,
``is_file``, ``exists``, ``relative_to``, ``parent``, ``/``, ``as_posix``, ``read_text``, ``__str__``); they follow
pathlib's documented behaviour and are validated against a real temporary directory on concrete trees by
``validate_against_real_fs`` (run by the harnesses which use this module on every run).
"""
from __future__ import annotations

from typing import Any, List, Optional, Sequence, Tuple


class Rel:
    """A relative pure path given by its parts."""

    def __init__(self, parts: Sequence[Any]) -> None:
        self.parts = list(parts)

    @property
    def parent(self) -> "Rel":
        return Rel(self.parts[:-1])

    @property
    def name(self) -> Any:
        return self.parts[-1] if self.parts else ""

    def __truediv__(self, other: Any) -> "Rel":
        if isinstance(other, Rel):
            return Rel(self.parts + other.parts)
        return Rel(self.parts + [other])

    def as_posix(self) -> Any:
        if not self.parts:
            return "."
        out = self.parts[0]
        for p in self.parts[1:]:
            out = out + "/" + p
        return out

    def __str__(self) -> str:
        return self.as_posix()


class Node:
    def __init__(self, name: Any, is_dir: bool, content: Any = None, undecodable: bool = False) -> None:
        self.name = name
        self.is_dir = is_dir
        self.content = content
        self.undecodable = undecodable
        self.children: List["Node"] = []


class FakePath:
    """A path inside a fake tree: root node + list of nodes from the root."""

    def __init__(self, root_text: str, chain: Sequence[Node]) -> None:
        self._root_text = root_text
        self._chain = list(chain)  # chain[0] is the root directory node

    # -- pure part
    @property
    def name(self) -> Any:
        return self._chain[-1].name

    @property
    def parent(self) -> "FakePath":
        return FakePath(self._root_text, self._chain[:-1])

    def relative_to(self, other: "FakePath") -> Rel:
        n = len(other._chain)
        if len(self._chain) < n or any(a is not b for a, b in zip(self._chain[:n], other._chain)):
            raise ValueError(f"{self} is not in the subpath of {other}")
        return Rel([node.name for node in self._chain[n:]])

    def as_posix(self) -> Any:
        out = self._root_text
        for node in self._chain[1:]:
            out = out + "/" + node.name
        return out

    def __str__(self) -> str:
        return self.as_posix()

    def __fspath__(self) -> str:
        return self.as_posix()

    def __format__(self, spec: str) -> str:
        return self.as_posix()

    # -- concrete part
    def exists(self) -> bool:
        return True

    def is_dir(self) -> bool:
        return self._chain[-1].is_dir

    def is_file(self) -> bool:
        return not self._chain[-1].is_dir

    def glob(self, pattern: str) -> List["FakePath"]:
        assert pattern == "**/*", "only the pattern used by the repository is modelled"
        out: List[FakePath] = []

        def walk(chain: List[Node]) -> None:
            for child in chain[-1].children:
                out.append(FakePath(self._root_text, chain + [child]))
                if child.is_dir:
                    walk(chain + [child])

        walk(self._chain)
        return out

    def read_text(self, encoding: Optional[str] = None) -> Any:
        node = self._chain[-1]
        assert not node.is_dir
        if node.undecodable:
            raise UnicodeDecodeError("utf-8", b"\xff", 0, 1, "invalid start byte")
        return node.content


def validate_against_real_fs() -> None:
    """FakePath must behave like pathlib on a concrete tree (names with dots, nesting, hidden entries)."""
    import pathlib
    import tempfile

    spec = [("a.txt", None, " x \n"), (".hidden", None, "h"), ("d", "dir", None), ("d/b", None, "b"),
            ("d/.git", "dir", None), ("d/.git/config", None, "c"), ("d/e", "dir", None), ("d/e/f.g", None, "\tq"),
            ("empty", "dir", None)]
    with tempfile.TemporaryDirectory() as tmp:
        real_root = pathlib.Path(tmp) / "snippets"
        real_root.mkdir()
        root = Node("snippets", True)
        index = {"": root}
        for rel, kind, content in spec:
            parent, _, name = rel.rpartition("/")
            node = Node(name, kind == "dir", content)
            index[parent].children.append(node)
            index[rel] = node
            if kind == "dir":
                (real_root / rel).mkdir()
            else:
                (real_root / rel).write_text(content, encoding="utf-8")
        fake_root = FakePath(str(real_root), [root])
        real = sorted(
            (p.relative_to(real_root).parent / p.name).as_posix() + ("/" if p.is_dir() else "") + "|" + p.name + "|" + str(p)
            for p in real_root.glob("**/*"))
        fake = sorted(
            (p.relative_to(fake_root).parent / p.name).as_posix() + ("/" if p.is_dir() else "") + "|" + p.name + "|" + str(p)
            for p in fake_root.glob("**/*"))
        assert real == fake, (real, fake)
        for p in fake_root.glob("**/*"):
            if not p.is_dir():
                assert p.read_text(encoding="utf-8") == pathlib.Path(str(p)).read_text(encoding="utf-8")
