"""
``rx`` -- regular-language queries decided by z3 (QF_LIA), bounded in the length of the string.

A regex is turned into a small AST::

    ("set", [(lo, hi), ...])      one code point (or code unit) out of the disjoint ranges
    ("cat", [x, ...]) ("alt", [x, ...]) ("rep", x, min, max|None)
    ("bol",) ("eol",)              Python's ``^`` and ``$`` (without MULTILINE)
    ("eps",) ("fail",)

by one of the readers (CPython's own ``re._parser``; the repository's retree; the strict XSD reader
in vf/xsdre.py; the VM-program reader in the C18 harness).  The AST is compiled into an NFA with
guarded epsilon edges; a string of length L is L integer terms; acceptance is the layered
reachability formula.  Equivalence / inclusion of two languages = UNSAT of the xor / of A and not B,
per length 0..K; a model is a concrete string which the caller replays with the real engine.

z3's sequence theory stops at U+2FFFF, hence this own encoding (code points go up to U+10FFFF here).
"""
from __future__ import annotations

import time
from typing import Any, Dict, List, Optional, Sequence, Tuple

import z3

MAXCP = 0x10FFFF
Ranges = List[Tuple[int, int]]


class Unsupported(Exception):
    pass


STATS = {"queries": 0, "solver_s": 0.0, "unknown": 0}


# ------------------------------------------------------------------------------ char sets
def normalize(ranges: Sequence[Tuple[int, int]]) -> Ranges:
    out: Ranges = []
    for lo, hi in sorted(r for r in ranges if r[0] <= r[1]):
        if out and lo <= out[-1][1] + 1:
            out[-1] = (out[-1][0], max(out[-1][1], hi))
        else:
            out.append((lo, hi))
    return out


def complement(ranges: Sequence[Tuple[int, int]], top: int = MAXCP) -> Ranges:
    out: Ranges = []
    prev = 0
    for lo, hi in normalize(ranges):
        if lo > prev:
            out.append((prev, lo - 1))
        prev = hi + 1
    if prev <= top:
        out.append((prev, top))
    return out


def in_set(term: Any, ranges: Ranges) -> Any:
    if not ranges:
        return z3.BoolVal(False)
    return z3.Or([z3.And(term >= lo, term <= hi) if lo != hi else term == lo for lo, hi in ranges])


# ------------------------------------------------------------------------------ Python reader
def parse_python(pattern: str) -> Any:
    """AST of a Python ``re`` pattern as CPython itself reads it (no flags)."""
    import re._parser as sp
    import re._constants as sc

    parsed = sp.parse(pattern)

    def conv_seq(seq: Any) -> Any:
        return ("cat", [conv(op, av) for op, av in seq])

    def conv(op: Any, av: Any) -> Any:
        if op is sc.LITERAL:
            return ("set", [(av, av)])
        if op is sc.NOT_LITERAL:
            return ("set", complement([(av, av)]))
        if op is sc.ANY:
            return ("set", complement([(10, 10)]))
        if op is sc.IN:
            neg = False
            rs: Ranges = []
            for o2, a2 in av:
                if o2 is sc.NEGATE:
                    neg = True
                elif o2 is sc.LITERAL:
                    rs.append((a2, a2))
                elif o2 is sc.RANGE:
                    rs.append((a2[0], a2[1]))
                else:
                    raise Unsupported(f"set item {o2}")
            rs = normalize(rs)
            return ("set", complement(rs) if neg else rs)
        if op is sc.BRANCH:
            return ("alt", [conv_seq(s) for s in av[1]])
        if op is sc.SUBPATTERN:
            group, add_flags, del_flags, sub = av
            if add_flags or del_flags:
                raise Unsupported("inline flags")
            return conv_seq(sub)
        if op in (sc.MAX_REPEAT, sc.MIN_REPEAT):
            lo, hi, sub = av
            return ("rep", conv_seq(sub), int(lo), None if hi is sc.MAXREPEAT else int(hi))
        if op is sc.AT:
            if av is sc.AT_BEGINNING:
                return ("bol",)
            if av is sc.AT_END:
                return ("eol",)
            raise Unsupported(f"AT {av}")
        raise Unsupported(f"op {op}")

    return conv_seq(parsed)


# ------------------------------------------------------------------------------ retree reader
def from_retree(node: Any, units: bool = False) -> Any:
    """AST of a tree of aas_core_codegen.parse.retree (``units``: characters are UTF-16 code units)."""
    from aas_core_codegen.parse import retree

    top = 0xFFFF if units else MAXCP

    def go(n: Any) -> Any:
        if isinstance(n, retree.Regex):
            return go(n.union)
        if isinstance(n, retree.UnionExpr):
            if len(n.uniates) == 0:
                return ("eps",)
            return ("alt", [go(u) for u in n.uniates])
        if isinstance(n, retree.Concatenation):
            return ("cat", [go(t) for t in n.concatenants])
        if isinstance(n, retree.Term):
            v = n.value
            if isinstance(v, retree.Char):
                x: Any = ("set", [(ord(v.character), ord(v.character))])
            elif isinstance(v, (retree.Group, retree.CharSet, retree.Symbol)):
                x = go(v)
            else:
                raise Unsupported("formatted value")
            if n.quantifier is not None:
                x = ("rep", x, n.quantifier.minimum, n.quantifier.maximum)
            return x
        if isinstance(n, retree.Group):
            return go(n.union)
        if isinstance(n, retree.Symbol):
            if n.kind is retree.SymbolKind.START:
                return ("bol",)
            if n.kind is retree.SymbolKind.END:
                return ("eol",)
            return ("set", complement([(10, 10)], top))
        if isinstance(n, retree.CharSet):
            rs = normalize([(ord(r.start.character), ord(r.end.character if r.end is not None else r.start.character))
                            for r in n.ranges])
            return ("set", complement(rs, top) if n.complementing else rs)
        raise Unsupported(type(n).__name__)

    return go(node)


# ------------------------------------------------------------------------------ NFA
class Nfa:
    """States are ints; ``eps[q]`` = [(guard, q2)] with guard in (None, 'bol', 'eol'); ``step[q]`` = [(ranges, q2)]."""

    def __init__(self) -> None:
        self.eps: List[List[Tuple[Optional[str], int]]] = []
        self.step: List[List[Tuple[Ranges, int]]] = []
        self.start = self.new()
        self.final = self.new()

    def new(self) -> int:
        self.eps.append([])
        self.step.append([])
        return len(self.eps) - 1


def nullable(ast: Any) -> bool:
    k = ast[0]
    if k in ("eps", "bol", "eol"):
        return True
    if k in ("set", "fail"):
        return False
    if k == "cat":
        return all(nullable(x) for x in ast[1])
    if k == "alt":
        return any(nullable(x) for x in ast[1])
    if k == "rep":
        return ast[2] == 0 or nullable(ast[1])
    raise AssertionError(k)


def build(ast: Any, max_len: int) -> Nfa:
    nfa = Nfa()

    def go(a: Any, s: int, t: int) -> None:
        k = a[0]
        if k == "eps":
            nfa.eps[s].append((None, t))
        elif k == "fail":
            pass
        elif k == "bol":
            nfa.eps[s].append(("bol", t))
        elif k == "eol":
            nfa.eps[s].append(("eol", t))
        elif k == "set":
            nfa.step[s].append((a[1], t))
        elif k == "cat":
            cur = s
            items = a[1]
            if not items:
                nfa.eps[s].append((None, t))
            for i, x in enumerate(items):
                nxt = t if i == len(items) - 1 else nfa.new()
                go(x, cur, nxt)
                cur = nxt
        elif k == "alt":
            for x in a[1]:
                m1, m2 = nfa.new(), nfa.new()
                nfa.eps[s].append((None, m1))
                go(x, m1, m2)
                nfa.eps[m2].append((None, t))
        elif k == "rep":
            sub, lo, hi = a[1], a[2], a[3]
            nl = nullable(sub)
            if lo > max_len and not nl:
                return  # cannot match any string within the bound
            if nl:
                lo = 0 if lo > max_len else lo  # x{m,..} == x{0,..} for nullable x (pad with empty iterations)
            cap = max(lo, max_len)
            unbounded = hi is None
            if hi is not None and hi > cap:
                hi = cap
            cur = s
            for _ in range(lo):
                nxt = nfa.new()
                go(sub, cur, nxt)
                cur = nxt
            if unbounded:
                loop_in, loop_out = nfa.new(), nfa.new()
                nfa.eps[cur].append((None, loop_in))
                go(sub, loop_in, loop_out)
                nfa.eps[loop_out].append((None, loop_in))
                nfa.eps[loop_in].append((None, t))
            else:
                assert hi is not None
                nfa.eps[cur].append((None, t))
                for _ in range(hi - lo):
                    nxt = nfa.new()
                    go(sub, cur, nxt)
                    nfa.eps[nxt].append((None, t))
                    cur = nxt
        else:
            raise AssertionError(k)

    go(ast, nfa.start, nfa.final)
    return nfa


def _closure(nfa: Nfa, bol: bool, eol: bool) -> List[List[int]]:
    """closure[q] = states reachable from q by epsilon edges whose guards hold."""
    n = len(nfa.eps)
    out: List[List[int]] = []
    for q in range(n):
        seen = {q}
        stack = [q]
        while stack:
            u = stack.pop()
            for g, v in nfa.eps[u]:
                if (g is None or (g == "bol" and bol) or (g == "eol" and eol)) and v not in seen:
                    seen.add(v)
                    stack.append(v)
        out.append(sorted(seen))
    return out


def accept_formula(nfa: Nfa, chars: Sequence[Any], mode: str, trailing_newline: bool) -> Any:
    """
    Formula: the NFA accepts the string ``chars`` (z3 integer terms).

    ``mode`` is ``"fullmatch"`` (whole string) or ``"match"`` (some prefix, like ``re.match``).
    ``trailing_newline``: the caller constrains the last character to be U+000A (then ``$`` also holds before it).
    """
    L = len(chars)
    n = len(nfa.eps)

    def guards(i: int) -> Tuple[bool, bool]:
        eol = (i == L) or (trailing_newline and i == L - 1)
        return (i == 0, eol)

    active: List[Any] = [None] * n  # z3 Bool or None (= False)
    cl = _closure(nfa, *guards(0))
    for q in cl[nfa.start]:
        active[q] = z3.BoolVal(True)
    accepts: List[Any] = []
    if active[nfa.final] is not None:
        accepts.append(active[nfa.final])
    if mode == "fullmatch" and L > 0:
        accepts = []
    for i in range(L):
        raw: List[List[Any]] = [[] for _ in range(n)]
        c = chars[i]
        for q in range(n):
            if active[q] is None:
                continue
            for ranges, q2 in nfa.step[q]:
                raw[q2].append(z3.And(active[q], in_set(c, ranges)))
        cl = _closure(nfa, *guards(i + 1))
        nxt_terms: List[List[Any]] = [[] for _ in range(n)]
        for q in range(n):
            if raw[q]:
                f = z3.Or(raw[q]) if len(raw[q]) > 1 else raw[q][0]
                for p in cl[q]:
                    nxt_terms[p].append(f)
        active = [(z3.Or(t) if len(t) > 1 else t[0]) if t else None for t in nxt_terms]
        if active[nfa.final] is not None and (mode == "match" or i == L - 1):
            accepts.append(active[nfa.final])
    if not accepts:
        return z3.BoolVal(False)
    return z3.Or(accepts) if len(accepts) > 1 else accepts[0]


def _check(solver: z3.Solver) -> str:
    t0 = time.perf_counter()
    r = solver.check()
    STATS["queries"] += 1
    STATS["solver_s"] += time.perf_counter() - t0
    if str(r) == "unknown":
        STATS["unknown"] += 1
    return str(r)


def compare(ast_a: Any, ast_b: Any, max_len: int, mode: str = "match", relation: str = "equal",
            alphabet: Optional[Ranges] = None, allow_newline: bool = True, timeout_ms: int = 20000,
            min_len: int = 0) -> Dict[str, Any]:
    """
    Decide ``L(a) == L(b)`` (or ``L(a) subset of L(b)`` for relation="subset") over strings of length <= max_len
    whose characters lie in ``alphabet`` (default: all code points).

    Returns {"verdict": "holds"|"refuted"|"unknown", "witness": [code points], "a_accepts": bool}.
    """
    alphabet = alphabet if alphabet is not None else [(0, MAXCP)]
    nfa_a = build(ast_a, max_len)
    nfa_b = build(ast_b, max_len)
    for L in range(min_len, max_len + 1):
        cs = [z3.Int(f"c{i}") for i in range(L)]
        for tn in ((False, True) if (allow_newline and L > 0) else (False,)):
            s = z3.Solver()
            s.set("timeout", timeout_ms)
            for c in cs:
                s.add(in_set(c, alphabet))
                if not allow_newline:
                    s.add(c != 10)
            if L > 0 and allow_newline:
                s.add(cs[-1] == 10 if tn else cs[-1] != 10)
            fa = accept_formula(nfa_a, cs, mode, tn)
            fb = accept_formula(nfa_b, cs, mode, tn)
            s.add(z3.Xor(fa, fb) if relation == "equal" else z3.And(fa, z3.Not(fb)))
            r = _check(s)
            if r == "sat":
                m = s.model()
                w = [m.eval(c, model_completion=True).as_long() for c in cs]
                return {"verdict": "refuted", "witness": w, "a_accepts": bool(z3.is_true(m.eval(fa, model_completion=True)))}
            if r != "unsat":
                return {"verdict": "unknown", "witness": None, "length": L}
    return {"verdict": "holds", "witness": None}


def accepts_concrete(ast: Any, cps: Sequence[int], mode: str = "match") -> bool:
    """Run the encoding on a concrete string (used to validate the readers against ``re``)."""
    nfa = build(ast, len(cps))
    tn = len(cps) > 0 and cps[-1] == 10
    f = accept_formula(nfa, [z3.IntVal(c) for c in cps], mode, tn)
    return bool(z3.is_true(z3.simplify(f)))
