"""
``sx`` -- exhaustive symbolic path exploration of real Python code (CrossHair + z3).

This is a variant of ``crosshair.core.explore_paths`` which

* re-arms icontract (CrossHair silently turns contracts into no-ops),
* keeps going after a violating path so that *all* violating path classes are collected,
* accounts for unknown paths (solver timeout, unsupported operation, path timeout),
* reads the exhaustion flag of the path tree,
* counts solver queries and solver time.

Only import this module in worker processes (it imports CrossHair).
"""
from __future__ import annotations

import inspect
import json
import os
import sys
import time
import traceback
import typing
from typing import Any, Callable, Dict, List, Optional

# --- save icontract's checkers before CrossHair replaces them -----------------------
import icontract._checkers as _ic

_SAVED_ICONTRACT = (
    _ic._assert_preconditions,
    _ic._assert_postconditions,
    _ic._assert_invariant,
)

import z3  # noqa: E402

import crosshair.core_and_libs  # noqa: E402,F401  (registers patches; disables icontract)
from crosshair.core import (  # noqa: E402
    COMPOSITE_TRACER,
    ExceptionFilter,
    Patched,
    deep_realize,
    gen_args,
)
from crosshair.condition_parser import condition_parser  # noqa: E402
from crosshair.options import AnalysisKind  # noqa: E402
from crosshair.statespace import (  # noqa: E402
    CallAnalysis,
    RootNode,
    StateSpace,
    StateSpaceContext,
    VerificationStatus,
)
from crosshair.tracers import NoTracing, ResumedTracing  # noqa: E402
from crosshair.util import (  # noqa: E402
    IgnoreAttempt,
    NotDeterministic,
    UnexploredPath,
)
from crosshair.copyext import CopyMode, deepcopyext  # noqa: E402

# re-arm icontract
(
    _ic._assert_preconditions,
    _ic._assert_postconditions,
    _ic._assert_invariant,
) = _SAVED_ICONTRACT

import vf.common  # noqa: E402
from vf.common import Violation, assume, exception_key  # noqa: E402,F401

vf.common._IGNORE_EXC = IgnoreAttempt


# --- symbolic hexadecimal formatting --------------------------------------------------
# ``format(symbolic_int, "04x")`` (also reached from f-strings) realizes the integer in CrossHair, which turns one
# path into one path per VALUE.  This patch keeps it symbolic for the specs the repository uses.
import re as _re  # noqa: E402
import crosshair.core as _chcore  # noqa: E402
from crosshair.libimpl.builtinslib import SymbolicInt as _SymbolicInt  # noqa: E402

_orig_format_patch = _chcore._PATCH_REGISTRATIONS[format]
_HEX_SPEC = _re.compile(r"(0?)(\d*)([xXo])")


def _hex_digit(d):
    # d in [0, 15]; no branching: 0-9 -> 48.., 10-15 -> 97..
    from vf.sym import ite
    return chr(ite(d < 10, 48 + d, 87 + d))


def _symbolic_format(obj, format_spec=""):
    from vf.sym import constrain, fresh_int
    with NoTracing():
        is_sym = isinstance(obj, _SymbolicInt)
        m = _HEX_SPEC.fullmatch(format_spec) if isinstance(format_spec, str) else None
        # an ordinary (pure Python) object with its own __format__/__str__, e.g. a path stand-in or an error object:
        # CrossHair would deep_realize it (and with it every symbolic string it holds) -> call its methods traced instead
        own = None
        if not is_sym and not type(obj).__module__.startswith(("crosshair", "builtins")) and format_spec == "":
            f = getattr(type(obj), "__format__", None)
            s = getattr(type(obj), "__str__", None)
            if f is not None and f is not object.__format__ and hasattr(f, "__code__"):
                own = f
            elif s is not None and s is not object.__str__ and hasattr(s, "__code__") and (
                    f is object.__format__ or f is None):
                own = s
    if own is not None:
        return own(obj, "") if own.__name__ == "__format__" else own(obj)
    if not (is_sym and m is not None and m.group(3) in ("x", "o")):
        return _orig_format_patch(obj, format_spec)
    base = 16 if m.group(3) == "x" else 8
    width = int(m.group(2)) if m.group(2) else 0
    pad = "0" if m.group(1) else " "
    n = obj
    if n < 0:
        return _orig_format_patch(obj, format_spec)
    # number of significant digits (forks on the magnitude only)
    ndigits = 1
    while ndigits < 16 and n >= base ** ndigits:
        ndigits += 1
    if ndigits >= 16:
        return _orig_format_patch(obj, format_spec)
    # digits as fresh variables tied to n by ONE linear equation (division-free: z3 stays in linear arithmetic)
    digits = [fresh_int(0, base - 1) for _ in range(ndigits)]  # most significant first
    total = 0
    for d in digits:
        total = total * base + d
    constrain(total == n)
    out = ""
    for d in digits:
        out += _hex_digit(d)
    if len(out) < width:
        out = pad * (width - len(out)) + out
    return out


_chcore._PATCH_REGISTRATIONS[format] = _symbolic_format


# --- symbolic model of str.encode("unicode_escape") for one character ------------------------------------------------
# (the regex renderer spells explicitly encoded characters with this codec; CrossHair realizes for unknown codecs)
from crosshair.libimpl.builtinslib import AnySymbolicStr as _AnySymbolicStr  # noqa: E402


class _EscapedAscii:
    """What ``s.encode('unicode_escape')`` returns for a symbolic one-character ``s``: only ``decode('ascii')`` is offered."""

    def __init__(self, text):
        self._text = text

    def decode(self, encoding="utf-8", errors="strict"):
        assert encoding in ("ascii", "utf-8", "latin-1")
        return self._text


def unicode_escape_of_char(c):
    """The unicode_escape spelling of the (possibly symbolic) code point ``c`` as a str (division-free hex digits)."""
    if c == 92:
        return "\\\\"
    if c == 9:
        return "\\t"
    if c == 10:
        return "\\n"
    if c == 13:
        return "\\r"
    if 32 <= c <= 126:
        return chr(c)
    if c < 0x100:
        return "\\x" + format(c, "02x")
    if c < 0x10000:
        return "\\u" + format(c, "04x")
    return "\\U" + format(c, "08x")


_orig_symbolic_encode = _AnySymbolicStr.encode


def _symbolic_encode(self, encoding="utf-8", errors="strict"):
    if encoding == "unicode_escape" and len(self) == 1:
        return _EscapedAscii(unicode_escape_of_char(ord(self)))
    return _orig_symbolic_encode(self, encoding, errors)


for _cls in [_AnySymbolicStr] + [c for c in _AnySymbolicStr.__subclasses__()]:
    if "encode" in _cls.__dict__:
        _cls.encode = _symbolic_encode  # type: ignore


# --- symbolic int(text, 16) -------------------------------------------------------------------------------------------
# CrossHair realizes the string (one path per VALUE); hexadecimal escapes of up to 8 digits are read fork-free instead.
_orig_int_patch = _chcore._PATCH_REGISTRATIONS[int]


def _symbolic_int(*args, **kwargs):
    from vf.sym import codepoints, constrain, fresh_int, ite
    with NoTracing():
        handle = (len(args) == 2 and not kwargs and isinstance(args[0], _AnySymbolicStr) and type(args[1]) is int
                  and args[1] == 16)
    if not handle:
        return _fallback_int(*args, **kwargs)
    cps = codepoints(args[0])
    if not (1 <= len(cps) <= 8):
        return _fallback_int(*args, **kwargs)
    total = 0
    valid = True
    for c in cps:
        is_digit = (c >= 48) & (c <= 57)
        is_upper = (c >= 65) & (c <= 70)
        is_lower = (c >= 97) & (c <= 102)
        valid = valid & (is_digit | is_upper | is_lower)
        d = ite(is_digit, c - 48, ite(is_upper, c - 55, c - 87))
        total = total * 16 + d
    if not valid:  # one fork: well-formed or not (signs, blanks and underscores are left to the original)
        return _fallback_int(*args, **kwargs)
    return total


def _fallback_int(*args, **kwargs):
    """CrossHair's own patch for symbolic ints/strings; plain ``int`` (untraced, else it would be intercepted again) otherwise."""
    with NoTracing():
        symbolic_first = bool(args) and isinstance(args[0], (_SymbolicInt, _AnySymbolicStr))
    if symbolic_first:
        return _orig_int_patch(*args, **kwargs)
    with NoTracing():
        real_args = [deep_realize(a) for a in args]
        real_kwargs = {k: deep_realize(v) for k, v in kwargs.items()}
        return int(*real_args, **real_kwargs)


_chcore._PATCH_REGISTRATIONS[int] = _symbolic_int


def selfcheck_format() -> None:
    """The patch must agree with the builtin on boundary values (run at worker start)."""
    for spec in ("x", "02x", "04x", "08x", "2x", "03o", "o"):
        for v in (0, 1, 9, 10, 15, 16, 31, 127, 128, 254, 255, 256, 4095, 4096, 0xD7FF, 0xFFFF, 0x10000, 0x10FFFF):
            m = _HEX_SPEC.fullmatch(spec)
            base = 16 if m.group(3) == "x" else 8
            ndigits = 1
            while v >= base ** ndigits:
                ndigits += 1
            out = "".join(_hex_digit((v // (base ** i)) % base) for i in range(ndigits - 1, -1, -1))
            width = int(m.group(2)) if m.group(2) else 0
            if len(out) < width:
                out = ("0" if m.group(1) else " ") * (width - len(out)) + out
            assert out == format(v, spec), (v, spec, out, format(v, spec))
    for v in (0, 8, 9, 10, 13, 31, 32, 34, 39, 91, 92, 93, 126, 127, 128, 254, 255, 256, 0xD7FF, 0xE000, 0xFFFF, 0x10000, 0x10FFFF):
        assert unicode_escape_of_char(v) == chr(v).encode("unicode_escape").decode("ascii"), v


selfcheck_format()


# --- solver accounting -----------------------------------------------------------------
class _SolverStats:
    queries = 0
    seconds = 0.0


_orig_check = z3.Solver.check


def _counting_check(self, *a, **kw):
    t0 = time.perf_counter()
    try:
        return _orig_check(self, *a, **kw)
    finally:
        _SolverStats.queries += 1
        _SolverStats.seconds += time.perf_counter() - t0


z3.Solver.check = _counting_check  # type: ignore


def _jsonable(v: Any) -> Any:
    if isinstance(v, (str, int, bool, float)) or v is None:
        return v
    if isinstance(v, bytes):
        return {"__bytes__": list(v)}
    if isinstance(v, (list, tuple)):
        return [_jsonable(x) for x in v]
    if isinstance(v, dict):
        return {str(k): _jsonable(x) for k, x in v.items()}
    return repr(v)


def explore(
    fn: Callable[..., Any],
    budget_s: float,
    per_path_timeout: float = 20.0,
    max_paths: int = 10**9,
    sample_cap: int = 6,
    violation_cap: int = 200,
) -> Dict[str, Any]:
    """
    Explore all paths of ``fn`` over symbolic arguments built from its annotations.

    ``fn`` returns ``None`` or a short label (str) on a path where the property held,
    raises :class:`Violation` where it does not; any other exception is a violation, too
    (the harness is expected to catch what the property admits).
    """
    sig = inspect.signature(fn)
    hints = typing.get_type_hints(fn)
    sig = sig.replace(
        parameters=[
            p.replace(annotation=hints.get(name, p.annotation))
            for name, p in sig.parameters.items()
        ]
    )
    root = RootNode()
    t_start = time.process_time()
    w_start = time.time()

    res: Dict[str, Any] = {
        "paths": 0,
        "ok": 0,
        "ignored": 0,
        "unknown": 0,
        "unknown_reasons": {},
        "labels": {},
        "violations": [],
        "violation_keys": {},
        "samples": [],
        "exhausted": False,
        "stopped_by": None,
    }
    q0, s0 = _SolverStats.queries, _SolverStats.seconds

    deadline = float(os.environ.get("VF_DEADLINE", "0") or 0)
    for i in range(max_paths):
        now = time.process_time()
        if now - t_start > budget_s:
            res["stopped_by"] = "budget"
            break
        if deadline and time.time() > deadline:
            # the wall-clock cap of the whole check (tier) is reached: what was explored so far counts, nothing more is claimed
            res["stopped_by"] = "tier-wall-cap"
            break
        space = StateSpace(
            execution_deadline=now + per_path_timeout,
            model_check_timeout=per_path_timeout / 2,
            search_root=root,
        )
        status: Optional[VerificationStatus]
        with (
            condition_parser([AnalysisKind.PEP316]),
            Patched(),
            COMPOSITE_TRACER,
            NoTracing(),
            StateSpaceContext(space),
        ):
            try:
                pre_args = gen_args(sig)
                args = deepcopyext(pre_args, CopyMode.REGULAR, {})
                ret: Any = None
                with ExceptionFilter() as efilter, ResumedTracing():
                    ret = fn(*args.args, **args.kwargs)
                res["paths"] += 1
                if efilter.ignore and not efilter.user_exc:
                    res["ignored"] += 1
                    status = None
                else:
                    status = VerificationStatus.CONFIRMED
                    if efilter.user_exc:
                        exc = efilter.user_exc[0]
                        if isinstance(exc, NotDeterministic):
                            raise exc
                        if isinstance(exc, RecursionError):
                            if os.environ.get("VF_DEBUG"):
                                tb = traceback.extract_tb(exc.__traceback__)
                                print("RecursionError depth", len(tb), file=sys.stderr)
                                for fr in tb[:10] + tb[-10:]:
                                    print("   ", fr.filename.split("/")[-1], fr.lineno, fr.name, file=sys.stderr)
                            raise UnexploredPath("RecursionError under tracing")
                        if isinstance(exc, Violation):
                            key, msg = exc.key, exc.msg
                        else:
                            key = "unexpected:" + exception_key(exc)
                            msg = "".join(
                                traceback.format_exception_only(type(exc), exc)
                            ).strip()[:400]
                        n = res["violation_keys"].get(key, 0)
                        res["violation_keys"][key] = n + 1
                        if n < 3 and len(res["violations"]) < violation_cap:
                            witness = _jsonable(deep_realize(pre_args.arguments))
                            res["violations"].append(
                                {"key": key, "msg": msg, "args": witness}
                            )
                    else:
                        res["ok"] += 1
                        if space.status_cap is not None:
                            res["unknown"] += 1
                            r = res["unknown_reasons"]
                            r["status_cap"] = r.get("status_cap", 0) + 1
                        label = ret if isinstance(ret, str) else "ok"
                        n = res["labels"].get(label, 0)
                        res["labels"][label] = n + 1
                        if n < 2 and len(res["samples"]) < sample_cap:
                            witness = _jsonable(deep_realize(pre_args.arguments))
                            res["samples"].append({"label": label, "args": witness})
            except IgnoreAttempt:
                res["paths"] += 1
                res["ignored"] += 1
                status = None
            except UnexploredPath as e:
                res["paths"] += 1
                res["unknown"] += 1
                r = res["unknown_reasons"]
                name = type(e).__name__
                r[name] = r.get(name, 0) + 1
                status = VerificationStatus.UNKNOWN
            _analysis, exhausted = space.bubble_status(CallAnalysis(status))
        if exhausted:
            res["exhausted"] = True
            res["stopped_by"] = "exhausted"
            break
    else:
        res["stopped_by"] = "max_paths"

    res["cpu_s"] = round(time.process_time() - t_start, 3)
    res["wall_s"] = round(time.time() - w_start, 3)
    res["solver_queries"] = _SolverStats.queries - q0
    res["solver_s"] = round(_SolverStats.seconds - s0, 3)
    return res


sys.setrecursionlimit(20000)  # CrossHair's interception adds frames; a RecursionError is never a property violation


def main(argv: List[str]) -> int:
    """Worker entry: ``python -m vf.sx <module> <shard-index> <tier> <out.json>``."""
    modname, shard_index, tier, out = argv[0], int(argv[1]), argv[2], argv[3]
    import importlib

    mod = importlib.import_module(modname)
    shard = vf.common.shard_spec(mod, tier, shard_index)
    fn = mod.make_harness(shard["params"])
    try:
        res = explore(
            fn,
            budget_s=float(shard.get("budget_s", 120)),
            per_path_timeout=float(shard.get("per_path_timeout", 20.0)),
            max_paths=int(shard.get("max_paths", 10**9)),
        )
        res["error"] = None
    except BaseException as e:  # noqa
        res = {
            "error": "".join(traceback.format_exception(type(e), e, e.__traceback__))[
                -3000:
            ]
        }
    res["shard"] = shard.get("name", str(shard_index))
    res["params"] = shard["params"]
    with open(out, "w") as f:
        json.dump(res, f)
    return 0


if __name__ == "__main__":
    sys.exit(main(sys.argv[1:]))
