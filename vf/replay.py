"""Concrete replay of a witness in a fresh interpreter; CrossHair is NOT imported here."""
from __future__ import annotations

import importlib
import json
import sys
import traceback

from vf.common import AssumptionFailed, Violation, exception_key


def _unjson(v):
    if isinstance(v, dict) and "__bytes__" in v:
        return bytes(v["__bytes__"])
    if isinstance(v, list):
        return [_unjson(x) for x in v]
    return v


def main(argv):
    modname, idx, tier, path = argv[0], int(argv[1]), argv[2], argv[3]
    assert "crosshair" not in sys.modules
    mod = importlib.import_module(modname)
    args = json.load(open(path))
    if idx >= 0:
        from vf.common import shard_spec
        params = shard_spec(mod, tier, idx)["params"]
        fn = mod.make_harness(params)
    else:
        params = None
        if not hasattr(mod, "replay_extra"):
            # a violation of the non-symbolic part of a check (corpus sweep, z3 language query, BMC): it was computed concretely
            # on the real code in the first place; the way to see it again is the check itself
            print("REPLAY " + json.dumps({"violated": None, "key": None,
                                          "msg": "violation of the concrete part of the check (no symbolic witness to replay): "
                                                 "re-run the check to reproduce it"}))
            return 0
        fn = mod.replay_extra
    out = {"violated": False, "key": None, "msg": None}
    kwargs = {k: _unjson(v) for k, v in args.items()} if isinstance(args, dict) else {}
    try:
        fn(**kwargs)
    except Violation as v:
        out = {"violated": True, "key": v.key, "msg": v.msg}
    except AssumptionFailed:
        out = {"violated": False, "key": None, "msg": "assumption failed on replay"}
    except Exception as e:  # noqa
        out = {"violated": True, "key": "unexpected:" + exception_key(e),
               "msg": "".join(traceback.format_exception_only(type(e), e)).strip()[:400]}
    if out["violated"] and params is not None and hasattr(mod, "public_replay"):
        try:
            out["public"] = mod.public_replay(params, kwargs)
        except Exception as e:  # noqa
            out["public"] = "public replay failed to run: " + repr(e)[:300]
    assert "crosshair" not in sys.modules, "replay must run without CrossHair"
    print("REPLAY " + json.dumps(out))
    return 0


if __name__ == "__main__":
    sys.exit(main(sys.argv[1:]))
