"""C30 -- generated constants and enumerations match the meta-model (Python SDK)."""
from __future__ import annotations

import enum
import pathlib
from typing import Any, Dict, List, Optional, Tuple

from aas_core_codegen import intermediate
from aas_core_codegen.common import Identifier
from aas_core_codegen.python import naming as python_naming

from vf.common import REPO, VERIF, ScanMapping, assume, fail, symbolic
from vf.sdk import Sdk

PROPERTY = "C30"
LEVEL = "translation_validation"

MODELS: Dict[str, pathlib.Path] = {
    "constants": VERIF / "models" / "c30_constants.py",
    "basic": VERIF / "models" / "c08_basic.py",
    "repo:enum": REPO / "dev" / "test_data" / "common_meta_models" / "enum.py",
    "repo:list_of_enums": REPO / "dev" / "test_data" / "common_meta_models" / "list_of_enums.py",
}
THOROUGH_MODELS: Dict[str, pathlib.Path] = {
    "repo:aas_core_meta.v3": REPO / "dev" / "test_data" / "common_meta_models" / "aas_core_meta.v3.py",
}

_SDKS: Dict[str, Sdk] = {}


def sdk_of(model: str) -> Sdk:
    if model not in _SDKS:
        path = MODELS.get(model) or THOROUGH_MODELS[model]
        snippets = REPO / "dev" / "test_data" / "main" / "python" / "expected" / path.name[:-len(".py")] / "input" / "snippets"
        sdk = Sdk(path.read_text(encoding="utf-8"), snippets_from=snippets if model in THOROUGH_MODELS and snippets.is_dir() else None)
        # stub: the generated X_from_str looks the text up in a module-level dict (hashing realizes a symbolic text)
        for name in dir(sdk.stringification):
            value = getattr(sdk.stringification, name)
            if name.startswith("_") and name.endswith("_FROM_STR") and isinstance(value, dict):
                setattr(sdk.stringification, name, ScanMapping(value))
        _SDKS[model] = sdk
    return _SDKS[model]


def from_str_of(sdk: Sdk, enumeration: intermediate.Enumeration) -> Any:
    return getattr(sdk.stringification, python_naming.function_name(Identifier(f"{enumeration.name}_from_str")))


def check_from_str(model: str, enum_name: str, text: Any) -> str:
    sdk = sdk_of(model)
    enumeration = sdk.symbol_table.must_find_enumeration(enum_name)
    source_enum = sdk.source[enumeration.name]
    sdk_enum = sdk.sdk_enum(enumeration)
    got = from_str_of(sdk, enumeration)(text)
    expected = None
    for member in source_enum:  # declared values, straight from the meta-model source
        if text == member.value:
            expected = member
    if expected is None:
        if got is not None:
            fail("from_str:text-that-is-no-declared-value-yields-a-literal", "%s: %r -> %r", enum_name, text, got)
        return "none"
    if got is None:
        fail("from_str:declared-value-yields-no-literal", "%s: %r", enum_name, text)
    if not isinstance(got, sdk_enum) or got.value != expected.value:
        fail("from_str:declared-value-yields-another-literal", "%s: %r -> %r", enum_name, text, got)
    if got is not getattr(sdk_enum, python_naming.enum_literal_name(Identifier(expected.name))):
        fail("from_str:literal-does-not-correspond-to-the-declared-name", "%s: %r -> %r", enum_name, text, got)
    return "literal"


def make_harness(params: Dict[str, Any]):
    model, enum_name, mode = params["model"], params["enum"], params["mode"]
    sdk = sdk_of(model)
    values = [m.value for m in sdk.source[enum_name]]

    if mode == "short":
        n = params["len"]

        def harness(text: str) -> Any:
            assume(len(text) == n)
            return check_from_str(model, enum_name, text)

        return harness

    base = values[params["value_index"]]

    def harness2(pos: int, c: str, insert: bool) -> Any:
        """A declared value with one character replaced / one character inserted at a symbolic position."""
        assume(len(c) == 1)
        if insert:
            assume(0 <= pos <= len(base))
            for k in range(len(base) + 1):
                if pos == k:
                    return check_from_str(model, enum_name, base[:k] + c + base[k:])
        else:
            assume(0 <= pos < len(base))
            for k in range(len(base)):
                if pos == k:
                    return check_from_str(model, enum_name, base[:k] + c + base[k + 1:])
        assume(False)

    return harness2


_TABLES: Dict[str, Any] = {}


def _enums(model: str) -> List[Tuple[str, List[str]]]:
    if model not in _TABLES:
        from vf.models import must_load
        path = MODELS.get(model) or THOROUGH_MODELS[model]
        _TABLES[model] = must_load(path.read_text(encoding="utf-8"))
    return [(e.name, [lit.value for lit in e.literals]) for e in _TABLES[model].enumerations]


def shards(tier: str) -> List[Dict[str, Any]]:
    out = []
    models = list(MODELS) + (list(THOROUGH_MODELS) if tier != "quick" else [])
    for model in models:
        for enum_name, values in _enums(model):
            if model.startswith("repo:aas_core_meta") and len(values) > 12:
                values = values[:12]
            for n in range(0, 3 if tier == "quick" else 4):
                out.append({"name": f"{model}:{enum_name}:text-of-length-{n}",
                            "params": {"model": model, "enum": enum_name, "mode": "short", "len": n},
                            "budget_s": 120 if tier == "quick" else 900, "per_path_timeout": 60})
            for i, v in enumerate(values):
                if tier == "quick" and i >= 4:
                    break
                out.append({"name": f"{model}:{enum_name}:near-miss-of-value-{i}",
                            "params": {"model": model, "enum": enum_name, "mode": "near", "value_index": i},
                            "budget_s": 120 if tier == "quick" else 900, "per_path_timeout": 60})
    return out


def extra_checks(tier: str) -> Dict[str, Any]:
    """Concrete part: constants, constant sets and enumerations of the SDK against the exec'd meta-model source."""
    violations: List[Dict[str, Any]] = []
    n = 0
    models = list(MODELS) + (list(THOROUGH_MODELS) if tier != "quick" else [])
    for model in models:
        sdk = sdk_of(model)
        st = sdk.symbol_table

        def to_sdk(value: Any) -> Any:
            if isinstance(value, enum.Enum):
                enumeration = st.must_find_enumeration(Identifier(type(value).__name__))
                return getattr(sdk.sdk_enum(enumeration), python_naming.enum_literal_name(Identifier(value.name)))
            return value

        for enumeration in st.enumerations:
            n += 1
            source_enum = sdk.source[enumeration.name]
            sdk_enum = sdk.sdk_enum(enumeration)
            want = [(python_naming.enum_literal_name(Identifier(m.name)), m.value) for m in source_enum]
            got = [(m.name, m.value) for m in sdk_enum]
            if got != want:
                violations.append({"key": "enumeration:literals-differ-from-the-declaration",
                                   "msg": f"{model}:{enumeration.name}: generated {got!r}, declared {want!r}", "args": model})
            for m in sdk_enum:
                if from_str_of(sdk, enumeration)(m.value) is not m:
                    violations.append({"key": "enumeration:to-text-and-back-is-not-the-identity",
                                       "msg": f"{model}:{enumeration.name}.{m.name}: from_str({m.value!r}) is "
                                              f"{from_str_of(sdk, enumeration)(m.value)!r}", "args": model})
        for constant in st.constants:
            n += 1
            name = python_naming.constant_name(constant.name)
            if not hasattr(sdk.constants, name):
                violations.append({"key": "constant:missing-from-the-generated-module", "msg": f"{model}:{constant.name}",
                                   "args": model})
                continue
            got = getattr(sdk.constants, name)
            declared = sdk.source[constant.name]
            if isinstance(constant, intermediate.ConstantPrimitive):
                if type(got) is not type(declared) or got != declared:
                    violations.append({"key": "constant:value-differs-from-the-declaration",
                                       "msg": f"{model}:{constant.name}: generated {got!r}, declared {declared!r}", "args": model})
            else:
                want_set = [to_sdk(v) for v in declared]  # own literals plus those of the declared subsets (shim)
                if not isinstance(got, (set, frozenset)) or len(got) != len(set(map(_key, want_set))) or \
                        sorted(map(_key, got)) != sorted(set(map(_key, want_set))):
                    violations.append({"key": "constant-set:members-differ-from-literals-plus-subsets",
                                       "msg": f"{model}:{constant.name}: generated {got!r}, declared {want_set!r}", "args": model})
    return {"violations": violations, "evidence": {"constants_and_enumerations_compared": n, "evaluations": n,
                                                   "distinct_nontrivial": n}}


def _key(v: Any) -> str:
    return f"{type(v).__name__}:{v!r}"


def describe(tier: str) -> Dict[str, Any]:
    return {
        "functions": ["aas_core_codegen.python.lib._generate_constants.generate",
                      "aas_core_codegen.python.lib._generate_stringification.generate",
                      "aas_core_codegen.python.lib._generate_types.generate",
                      "aas_core_codegen.intermediate._translate.translate"],
        "bounds": "models: /verif/models/c30_constants.py (str/int/float/bool constants with quotes, backslashes, NUL and astral "
                  "characters; str/int/enumeration-literal sets with superset_of chains of depth 3; enumerations with empty, quoted, "
                  "multi-line and astral values), c08_basic.py, the repository's enum models (thorough: aas_core_meta.v3). Symbolic: "
                  "X_from_str(text) for every text of 0..2 (3) arbitrary code points, and for every declared value with one character "
                  "replaced or inserted at a symbolic position",
        "outside": "texts which are neither short nor one edit away from a declared value; constant_bytearray (the front end accepts "
                   "no bytearray literal at all: reported in DESIGN.md)",
        "stubs": ["_X_FROM_STR dicts of the generated stringification module -> linear-scan mapping (hashing realizes a symbolic text)"],
        "assumptions": ["reference: the meta-model source exec'd with shims (constant_set = own values plus the values of superset_of)"],
        "rule": "one shard per (model, enumeration, text length / declared value); one concrete evaluation per constant and enumeration",
    }
