"""C18 -- regex virtual-machine programs (intermediate/revm.py, C++ matcher) match like the pattern."""
from __future__ import annotations

import os
import re
import shutil
import subprocess
import tempfile
from typing import Any, Dict, List, Optional, Tuple

from aas_core_codegen.intermediate import revm
from aas_core_codegen.parse import retree

from vf.common import REPO, Violation, assume, fail, symbolic
from harness.C17 import fullmatch as tree_fullmatch, _scalar  # reference matcher for retree trees

PROPERTY = "C18"
LEVEL = "model_checking"

revm.translate(retree.parse(["^a[b-c]{1,2}(x|y)*.?$"])[0])

# stub: transform_regex eagerly renders the whole pattern for an exception message that is never raised on anchored
# patterns; the rendering looks every character up in a dict (hash -> realizes the symbolic character)
_REAL_RENDER_RE_NODE = revm._render_re_node


def _stub_render(re_node: Any) -> str:
    return "<pattern>"


def _install_stubs() -> None:
    revm._render_re_node = _stub_render  # type: ignore


def linearize(node: Any) -> List[Any]:
    out: List[Any] = []
    for child in node.children:
        if isinstance(child, revm.Leaf):
            out.append(child)
        else:
            out.extend(linearize(child))
    return out


# ---- the documented instruction semantics (Thompson / Pike VM with a visited flag per step) -------------------
def vm_match(program: List[Any], text: List[Any]) -> bool:
    n = len(program)
    if n == 0:
        return False

    def closure(start: List[int], at_end: bool) -> Tuple[List[int], bool]:
        """Follow jump/split (and end at the end of input); returns the consuming threads and 'match reached'."""
        seen = [False] * n
        stack = list(start)
        consuming: List[int] = []
        matched = False
        while stack:
            pc = stack.pop()
            if pc < 0 or pc >= n:
                fail("vm:program-counter-outside-the-program")
            if seen[pc]:
                continue
            seen[pc] = True
            ins = program[pc].instruction
            if isinstance(ins, revm.InstructionJump):
                stack.append(ins.target)
            elif isinstance(ins, revm.InstructionSplit):
                stack.append(ins.first_target)
                stack.append(ins.second_target)
            elif isinstance(ins, revm.InstructionMatch):
                matched = True
            elif isinstance(ins, revm.InstructionEnd):
                if at_end:
                    stack.append(pc + 1)
            else:
                consuming.append(pc)
        return consuming, matched

    threads = [0]
    for i in range(len(text)):
        consuming, matched = closure(threads, False)
        if matched:
            return True  # the C++ loop returns as soon as a Match instruction is reached
        ch = text[i]
        nxt: List[int] = []
        for pc in consuming:
            ins = program[pc].instruction
            ok = False
            if isinstance(ins, revm.InstructionChar):
                ok = bool(ch == ord(ins.character))
            elif isinstance(ins, revm.InstructionAny):
                ok = True
            elif isinstance(ins, (revm.InstructionSet, revm.InstructionNotSet)):
                inside = False
                for r in ins.ranges:
                    if ord(r.first) <= ch and ch <= ord(r.last):
                        inside = True
                        break
                ok = inside if isinstance(ins, revm.InstructionSet) else (not inside)
            else:
                raise AssertionError(type(ins))
            if ok:
                nxt.append(pc + 1)
        threads = nxt
        if len(threads) == 0:
            return False
    _, matched = closure(threads, True)
    return matched


def check_labels(program: List[Any]) -> None:
    n = len(program)
    for i, leaf in enumerate(program):
        if leaf.label is not None and leaf.label != i:
            fail("vm:label-is-not-the-instruction-index")
        ins = leaf.instruction
        targets: List[int] = []
        if isinstance(ins, revm.InstructionJump):
            targets = [ins.target]
        elif isinstance(ins, revm.InstructionSplit):
            targets = [ins.first_target, ins.second_target]
        for t in targets:
            if t < 0 or t >= n:
                fail("vm:jump-target-outside-the-program")
            if program[t].label != t:
                fail("vm:jump-target-without-label")
    if n == 0 or not isinstance(program[-1].instruction, revm.InstructionMatch):
        fail("vm:program-does-not-end-with-match")


# ---- skeletons -------------------------------------------------------------------------------------------
def _ch(n: Any) -> retree.Char:
    return retree.Char(chr(n))


def _quant(lo: Any, hi: Any, unbounded: bool) -> Optional[retree.Quantifier]:
    if unbounded:
        return retree.Quantifier(non_greedy=False, minimum=lo, maximum=None)
    return retree.Quantifier(non_greedy=False, minimum=lo, maximum=hi)


def _concretize(v: Any, bound: int) -> int:
    for k in range(bound + 1):
        if v == k:
            return k
    assume(False)
    return 0


def build_inner(skeleton: str, a: Any, b: Any, c: Any, lo: int, hi: int, unbounded: bool) -> List[Any]:
    T = retree.Term
    q = _quant(lo, hi, unbounded)
    DOT = retree.Symbol(retree.SymbolKind.DOT)
    if skeleton == "char":          # a{q} b
        return [T(_ch(a), q), T(_ch(b), None)]
    if skeleton == "set":           # [a-bc]{q}
        assume(a <= b)
        assume(c < a or c > b)
        return [T(retree.CharSet(False, [retree.Range(_ch(c), None), retree.Range(_ch(a), _ch(b))]), q)]
    if skeleton == "notset":        # [^a-b]{q} c
        assume(a <= b)
        return [T(retree.CharSet(True, [retree.Range(_ch(a), _ch(b))]), q), T(_ch(c), None)]
    if skeleton == "dot":           # a .{q}
        return [T(_ch(a), None), T(DOT, q)]
    if skeleton == "dot-star-tail":  # a{q} .*   (the arbitrary-suffix optimisation)
        return [T(_ch(a), q), T(DOT, retree.Quantifier(False, 0, None))]
    if skeleton == "alt":           # (a|bc){q}
        u = retree.UnionExpr([retree.Concatenation([T(_ch(a), None)]),
                              retree.Concatenation([T(_ch(b), None), T(_ch(c), None)])])
        return [T(retree.Group(u), q)]
    if skeleton == "alt-empty":     # (a|){q} b
        u = retree.UnionExpr([retree.Concatenation([T(_ch(a), None)]), retree.Concatenation([])])
        return [T(retree.Group(u), q), T(_ch(b), None)]
    if skeleton == "opt-prefix":    # b? a{q} c     (a branch directly in front of the repetition)
        return [T(_ch(b), retree.Quantifier(False, 0, 1)), T(_ch(a), q), T(_ch(c), None)]
    if skeleton == "alt-inside":    # (a b?){q}     (a branching operand)
        u = retree.UnionExpr([retree.Concatenation([T(_ch(a), None), T(_ch(b), retree.Quantifier(False, 0, 1))])])
        return [T(retree.Group(u), q)]
    if skeleton == "nested":        # (a{q} b)* c
        u = retree.UnionExpr([retree.Concatenation([T(_ch(a), q), T(_ch(b), None)])])
        return [T(retree.Group(u), retree.Quantifier(False, 0, None)), T(_ch(c), None)]
    if skeleton == "nested-nullable":  # (a{q})* b     -- an epsilon cycle whenever a{q} can be empty
        u = retree.UnionExpr([retree.Concatenation([T(_ch(a), q)])])
        return [T(retree.Group(u), retree.Quantifier(False, 0, None)), T(_ch(b), None)]
    raise AssertionError(skeleton)


def check(skeleton: str, a: Any, b: Any, c: Any, lo: int, hi: int, unbounded: bool, probe: List[Any]) -> str:
    for n in (a, b, c):
        _scalar(n)
    for n in probe:
        _scalar(n)
        assume(n != 10)  # strings without line breaks
    inner = build_inner(skeleton, a, b, c, lo, hi, unbounded)
    T = retree.Term
    full = retree.Regex(retree.UnionExpr([retree.Concatenation(
        [T(retree.Symbol(retree.SymbolKind.START), None)] + inner + [T(retree.Symbol(retree.SymbolKind.END), None)])]))
    if symbolic():
        _install_stubs()
    root = revm.translate(full)  # must not raise for an accepted anchored pattern
    program = linearize(root)
    check_labels(program)
    got = vm_match(program, probe)
    reference = retree.Regex(retree.UnionExpr([retree.Concatenation(build_inner(skeleton, a, b, c, lo, hi, unbounded))]))
    expected = tree_fullmatch(reference, probe)
    if got != expected:
        fail(f"vm:accepts-differently:{skeleton}", "skeleton=%s a=%#x b=%#x c=%#x quantifier={%d,%s} probe=%r vm=%s pattern=%s",
             skeleton, a, b, c, lo, "inf" if unbounded else hi, probe, got, expected)
    return "match" if expected else "no-match"


SKELETONS = ["char", "set", "notset", "dot", "dot-star-tail", "alt", "alt-empty", "opt-prefix", "alt-inside", "nested", "nested-nullable"]


def make_harness(params: Dict[str, Any]):
    sk, shape_len, lo, hi, unbounded = params["skeleton"], params["probe_len"], params["lo"], params["hi"], params["unbounded"]

    used = {"char": 2, "set": 3, "notset": 3, "dot": 1, "dot-star-tail": 1, "alt": 3, "alt-empty": 2, "nested": 3,
            "nested-nullable": 2, "opt-prefix": 3, "alt-inside": 2}[sk]

    def harness(a: int, b: int, c: int, probe: List[int]) -> Any:
        if used < 3:
            assume(c == 0)
        if used < 2:
            assume(b == 0)
        assume(len(probe) == shape_len)
        probe = [probe[i] for i in range(shape_len)]
        return check(sk, a, b, c, lo, hi, unbounded, probe)

    return harness


QUANTS_QUICK = [(1, 1, False), (0, 1, False), (0, 0, True), (1, 0, True), (0, 2, False), (2, 3, False), (2, 0, True), (3, 0, True)]
QUANTS_THOROUGH = QUANTS_QUICK + [(0, 0, False), (1, 2, False), (1, 3, False), (3, 3, False), (4, 0, True), (0, 3, False)]


def shards(tier: str) -> List[Dict[str, Any]]:
    max_probe = 3 if tier == "quick" else 4
    budget = 90 if tier == "quick" else 900
    quants = QUANTS_QUICK if tier == "quick" else QUANTS_THOROUGH
    out = []
    for sk in SKELETONS:
        for lo, hi, unb in quants:
            for plen in range(max_probe + 1):
                out.append({"name": f"{sk},quantifier={{{lo},{'inf' if unb else hi}}},probe-len={plen}",
                            "params": {"skeleton": sk, "lo": lo, "hi": hi, "unbounded": unb, "probe_len": plen},
                            "budget_s": budget, "per_path_timeout": 60})
    return out


# ---- corpus + C++ ----------------------------------------------------------------------------------------
def program_to_ast(program: List[Any]) -> Any:
    """The VM program as an NFA for the rx engine (state = program counter)."""
    from vf import rx
    nfa = rx.Nfa()
    n = len(program)
    states = [nfa.new() for _ in range(n + 1)]
    nfa.eps[nfa.start].append((None, states[0]))
    for pc, leaf in enumerate(program):
        ins = leaf.instruction
        s = states[pc]
        if isinstance(ins, revm.InstructionChar):
            nfa.step[s].append(([(ord(ins.character), ord(ins.character))], states[pc + 1]))
        elif isinstance(ins, revm.InstructionAny):
            nfa.step[s].append(([(0, rx.MAXCP)], states[pc + 1]))
        elif isinstance(ins, (revm.InstructionSet, revm.InstructionNotSet)):
            rs = rx.normalize([(ord(r.first), ord(r.last)) for r in ins.ranges])
            nfa.step[s].append((rs if isinstance(ins, revm.InstructionSet) else rx.complement(rs), states[pc + 1]))
        elif isinstance(ins, revm.InstructionJump):
            nfa.eps[s].append((None, states[ins.target]))
        elif isinstance(ins, revm.InstructionSplit):
            nfa.eps[s].append((None, states[ins.first_target]))
            nfa.eps[s].append((None, states[ins.second_target]))
        elif isinstance(ins, revm.InstructionEnd):
            nfa.eps[s].append(("eol", states[pc + 1]))
        elif isinstance(ins, revm.InstructionMatch):
            nfa.eps[s].append((None, nfa.final))
    return nfa


def corpus_patterns() -> List[str]:
    pats = set()
    for p in sorted((REPO / "dev/test_data/intermediate_revm").glob("**/pattern.regex")):
        pats.add(p.read_text(encoding="utf-8"))
    # the patterns of the big real meta-model
    try:
        from vf.models import front_end
        text = (REPO / "dev/test_data/common_meta_models/aas_core_meta.v3/meta_model.py").read_text(encoding="utf-8")
        st, err, _ = front_end(text)
        if st is not None:
            from aas_core_codegen import intermediate
            for v in st.verification_functions:
                if isinstance(v, intermediate.PatternVerification):
                    pats.add(v.pattern)
    except Exception:
        pass
    return sorted(pats)


BATTERY = ["^(a*)*$", "^(a?)+b$", "^(|a)*$", "^(a|b*)*c$", "^a{2,3}b?$", "^[^a-c]+$", "^a.*$", "^(ab|a)(c|bcd)$"]


def _cpp_differential(patterns: List[str], probes_by_pattern: Dict[str, List[str]], workdir: str) -> Tuple[List[Dict[str, Any]], Dict[str, Any]]:
    """Generate revm.cpp and the programs with the real generator, compile with g++, run every (pattern, probe)."""
    from aas_core_codegen.cpp.lib import _generate_revm, _generate_pattern
    from aas_core_codegen.common import Stripped
    ns = Stripped("verif")
    inc = Stripped("verif")
    src = os.path.join(workdir, "verif")
    os.makedirs(src, exist_ok=True)
    # common.hpp of the SDK needs third-party headers (tl::optional/expected) which are not in the sandbox; the matcher
    # only uses common::Concat and common::make_unique, which this stand-in provides
    open(os.path.join(src, "common.hpp"), "w").write(
        "#pragma once\n#include <memory>\n#include <string>\n#include <utility>\n"
        "namespace verif { namespace common {\n"
        "inline std::string Concat() { return std::string(); }\n"
        "template <class... R> std::string Concat(const std::string& a, const R&... r) { return a + Concat(r...); }\n"
        "template <class T, class... A> std::unique_ptr<T> make_unique(A&&... a) { return std::unique_ptr<T>(new T(std::forward<A>(a)...)); }\n"
        "} }\n")
    open(os.path.join(src, "revm.hpp"), "w").write(_generate_revm.generate_header(library_namespace=ns))
    open(os.path.join(src, "revm.cpp"), "w").write(_generate_revm.generate_implementation(library_namespace=ns))
    body = ['#include "verif/revm.hpp"', '#include "verif/common.hpp"', "#include <iostream>", "#include <string>",
            "#include <vector>", "#include <memory>", "#include <cstdlib>", "using namespace verif;",
            "static std::wstring decode(const char* s){std::wstring w; while(*s){ w.push_back((wchar_t)std::strtoul(s,(char**)&s,16)); if(*s==',') ++s;} return w;}"]
    usable: List[str] = []
    for i, pat in enumerate(patterns):
        regex, err = retree.parse([pat])
        if err is not None:
            continue
        try:
            code = _generate_pattern._generate_program_definition_for_regex(regex=regex)
        except Exception:
            continue
        body.append(f"static std::vector<std::unique_ptr<revm::Instruction> > make_{len(usable)}() {{\n{code}\nreturn program;\n}}")
        usable.append(pat)
    body.append("int main(int argc, char** argv){ int which = std::atoi(argv[1]); std::wstring text = decode(argc > 2 ? argv[2] : \"\");")
    body.append("std::vector<std::unique_ptr<revm::Instruction> > program;")
    for i in range(len(usable)):
        body.append(f"if (which == {i}) program = make_{i}();")
    body.append("std::cout << (revm::Match(program, text) ? 1 : 0) << std::endl; return 0; }")
    open(os.path.join(workdir, "main.cpp"), "w").write("\n".join(body))
    exe = os.path.join(workdir, "a.out")
    p = subprocess.run(["g++", "-std=c++17", "-O1", "-I", workdir, os.path.join(workdir, "main.cpp"),
                        os.path.join(src, "revm.cpp"), "-o", exe],
                       stdout=subprocess.PIPE, stderr=subprocess.PIPE, text=True, timeout=600)
    stats = {"cpp_patterns": len(usable), "cpp_runs": 0, "cpp_compile_rc": p.returncode}
    if p.returncode != 0:
        return [], {**stats, "cpp_compile_error": p.stderr[-800:]}
    violations: List[Dict[str, Any]] = []
    for i, pat in enumerate(usable):
        for probe in probes_by_pattern.get(pat, []):
            arg = ",".join("%x" % ord(ch) for ch in probe)
            stats["cpp_runs"] += 1
            try:
                r = subprocess.run([exe, str(i), arg], stdout=subprocess.PIPE, stderr=subprocess.PIPE, text=True, timeout=2)
                got: Any = r.stdout.strip() == "1" if r.returncode == 0 else f"rc={r.returncode}"
            except subprocess.TimeoutExpired:
                got = "timeout"
            expected = re.match(pat, probe) is not None
            if got != expected:
                key = "cpp:matcher-does-not-terminate" if got == "timeout" else "cpp:matcher-accepts-differently"
                if not any(v["key"] == key for v in violations):
                    violations.append({"key": key, "msg": f"pattern {pat!r} probe {probe!r}: C++ Match -> {got}, re.match -> {expected}",
                                       "args": {"pattern": pat, "probe": probe}})
    return violations, stats


def extra_checks(tier: str) -> Dict[str, Any]:
    from vf import rx
    violations: List[Dict[str, Any]] = []
    pats = corpus_patterns()
    max_len = 5 if tier == "quick" else 8
    compared = 0
    skipped = 0
    probes: Dict[str, List[str]] = {}
    for pat in pats + BATTERY:
        regex, err = retree.parse([pat])
        if err is not None:
            skipped += 1
            continue
        try:
            program = linearize(revm.translate(regex))
            ast = rx.parse_python(pat)
        except (NotImplementedError, rx.Unsupported):
            skipped += 1
            continue
        nfa_vm = program_to_ast(program)
        nfa_py = rx.build(ast, max_len)
        compared += 1
        import z3
        probes[pat] = ["", "a", "ab", "aab", "abc", "b", "c", "xyz"]
        for L in range(0, max_len + 1):
            cs = [z3.Int(f"c{i}") for i in range(L)]
            s = z3.Solver()
            s.set("timeout", 20000)
            for ch in cs:
                s.add(ch >= 0, ch <= rx.MAXCP, ch != 10, z3.Or(ch < 0xD800, ch > 0xDFFF))
            fa = rx.accept_formula(nfa_vm, cs, "match", False)
            fb = rx.accept_formula(rx.build(ast, L), cs, "match", False)
            s.add(z3.Xor(fa, fb))
            r = rx._check(s)
            if r == "sat":
                m = s.model()
                w = "".join(chr(m.eval(ch, model_completion=True).as_long()) for ch in cs)
                py = re.match(pat, w) is not None
                vm = vm_match(program, [ord(ch) for ch in w])
                probes[pat].append(w)
                if py != vm:
                    key = "vm:corpus-pattern-accepts-differently"
                    if not any(v["key"] == key for v in violations):
                        violations.append({"key": key, "msg": f"pattern {pat!r} on {w!r}: vm={vm} python={py}",
                                           "args": {"pattern": pat, "probe": w}})
                break
            if r != "unsat":
                return {"violations": violations, "errors": [f"rx unknown for {pat!r} at length {L}"], "evidence": {}}
    evidence = {"corpus_patterns_compared_by_rx": compared, "corpus_patterns_skipped": skipped,
                "rx_max_len": max_len, "rx_queries": rx.STATS["queries"], "rx_solver_s": round(rx.STATS["solver_s"], 2)}
    if shutil.which("g++"):
        workdir = tempfile.mkdtemp(prefix="verif_c18_cpp_")
        try:
            sel = [p for p in pats if p in probes][:12] + BATTERY
            v2, stats = _cpp_differential(sel, probes, workdir)
            violations.extend(v2)
            evidence.update(stats)
        finally:
            shutil.rmtree(workdir, ignore_errors=True)
    return {"violations": violations, "evidence": evidence}


def describe(tier: str) -> Dict[str, Any]:
    s = shards(tier)
    return {
        "functions": ["aas_core_codegen.intermediate.revm.translate", "aas_core_codegen.intermediate.revm._Translator",
                      "aas_core_codegen.intermediate.revm._relabel_in_place", "aas_core_codegen.intermediate.revm._remove_noop_in_place",
                      "aas_core_codegen.cpp.lib._generate_pattern._generate_program_definition_for_regex",
                      "aas_core_codegen.cpp.lib._generate_revm.generate_implementation"],
        "bounds": f"11 anchored tree skeletons (literal, set, complemented set, dot, arbitrary-suffix optimisation, alternatives, optional prefix before a repetition, repetition of a branching operand, "
                  f"empty alternative, nested groups, nested nullable group) x quantifiers "
                  f"{sorted({(x['params']['lo'], 'inf' if x['params']['unbounded'] else x['params']['hi']) for x in s}, key=str)}; code points symbolic over "
                  f"[0, 0x10FFFF] minus surrogates; probe strings of length 0..{max(x['params']['probe_len'] for x in s)} symbolic, no U+000A; "
                  "corpus patterns (dev/test_data/intermediate_revm + aas_core_meta.v3): program encoded as an NFA and compared with "
                  "CPython's reading of the pattern by z3 up to the stated length",
        "outside": "the C++ Match loop is only exercised concretely (g++) on the corpus, the battery and the solver's witnesses; "
                   "longer probes; deeper nesting than the skeletons",
        "stubs": ["revm._render_re_node (text for an exception message) returns a constant in symbolic runs; the concrete "
                  "replay runs the real one"],
        "assumptions": ["the Python interpreter of the instruction semantics follows the documentation (a thread per program "
                        "counter and step); the generated C++ clears the visited flag on Pop, which is the open finding below",
                        "reference matcher for retree trees as in C17"],
        "rule": "one shard per skeleton, quantifier and probe length",
    }
