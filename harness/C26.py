"""C26 -- yield-flow linearization preserves behaviour (yielding/linear.py, semantics of cpp/yielding.py)."""
from __future__ import annotations

from typing import Any, Dict, List, Optional, Tuple

from aas_core_codegen.common import Stripped
from aas_core_codegen.yielding import flow as F
from aas_core_codegen.yielding import linear as LN

from vf.common import Violation, assume, fail

PROPERTY = "C26"
LEVEL = "model_checking"

LN.linearize_to_subroutines([F.IfTrue("c", [F.Command(Stripped("a")), F.Yield()], [F.While("d", [F.Yield()])]),
                             F.For("e", "i", [F.Yield()], init="n"), F.Command(Stripped("z"))])


# ---- decoder: bounded symbolic integers -> structured flow -------------------------------------------------
class _Gen:
    def __init__(self, genome: List[int], max_nodes: int, max_depth: int) -> None:
        self.g = genome
        self.i = 0
        self.nodes = 0
        self.max_nodes = max_nodes
        self.max_depth = max_depth
        self.n_cmd = 0
        self.n_cond = 0

    def take(self, mod: int) -> int:
        if self.i >= len(self.g):
            return 0
        v = self.g[self.i]
        self.i += 1
        assume(v < mod)  # canonical genome: no two genomes decode to the same flow
        # the solver enumerates the residues; values outside [0, mod) are excluded by the harness' assumption
        for k in range(mod):
            if v == k:
                return k
        return 0

    def cmd(self) -> F.Command:
        self.n_cmd += 1
        return F.Command(Stripped(f"c{self.n_cmd}"))

    def cond(self) -> str:
        self.n_cond += 1
        return f"k{self.n_cond}"

    def seq(self, depth: int, min_len: int) -> List[Any]:
        n = self.take(3 - min_len) + min_len  # min_len..2 nodes
        out = []
        for _ in range(n):
            if self.nodes >= self.max_nodes:
                break
            out.append(self.node(depth))
        if len(out) < min_len:
            out.append(self.cmd())
        return out

    def node(self, depth: int) -> Any:
        self.nodes += 1
        kind = self.take(6) if depth < self.max_depth else self.take(2)
        if kind == 0:
            return self.cmd()
        if kind == 1:
            return F.Yield()
        if kind == 2 or kind == 3:
            c = self.cond()
            body = self.seq(depth + 1, 1)
            e = self.take(3)  # 0: no else, 1: empty else, 2: else
            or_else: Optional[List[Any]] = None if e == 0 else ([] if e == 1 else self.seq(depth + 1, 1))
            return (F.IfTrue if kind == 2 else F.IfFalse)(c, body, or_else)
        if kind == 4:
            c = self.cond()
            with_init = self.take(2)
            self.n_cmd += 1
            it = f"c{self.n_cmd}"
            init = None
            if with_init == 1:
                self.n_cmd += 1
                init = f"c{self.n_cmd}"
            return F.For(c, it, self.seq(depth + 1, 0), init=init)
        c = self.cond()
        return F.While(c, self.seq(depth + 1, 0))


# ---- reference semantics of the structured flow ----------------------------------------------------------
class _OutOfOutcomes(Exception):
    pass


def run_structured(flow: List[Any], outcomes: List[bool], max_events: int) -> List[Tuple[str, str]]:
    trace: List[Tuple[str, str]] = []
    pos = [0]

    def ev(kind: str, what: str) -> None:
        trace.append((kind, what))
        if len(trace) >= max_events:
            raise _OutOfOutcomes()

    def cond(text: str) -> bool:
        if pos[0] >= len(outcomes):
            raise _OutOfOutcomes()
        v = outcomes[pos[0]]
        pos[0] += 1
        if v:
            ev("cond", text + "=T")
            return True
        ev("cond", text + "=F")
        return False

    def seq(nodes: Any) -> None:
        for n in nodes:
            if isinstance(n, F.Command):
                ev("cmd", n.code)
            elif isinstance(n, F.Yield):
                ev("yield", "")
            elif isinstance(n, F.IfTrue):
                if cond(n.condition):
                    seq(n.body)
                elif n.or_else is not None:
                    seq(n.or_else)
            elif isinstance(n, F.IfFalse):
                if not cond(n.condition):
                    seq(n.body)
                elif n.or_else is not None:
                    seq(n.or_else)
            elif isinstance(n, F.For):
                if n.init is not None:
                    ev("cmd", n.init)
                while cond(n.condition):
                    seq(n.body)
                    ev("cmd", n.iteration)
            elif isinstance(n, F.While):
                while cond(n.condition):
                    seq(n.body)
            else:
                raise AssertionError(type(n))

    try:
        seq(flow)
        trace.append(("end", ""))
    except _OutOfOutcomes:
        pass
    return trace


# ---- semantics of the subroutines as emitted by cpp/yielding.py ------------------------------------------
def run_machine(subroutines: List[Any], outcomes: List[bool], max_events: int) -> List[Tuple[str, str]]:
    """``while (true) switch (state) { case L: {...} case L+1: {...} default: throw }``: statements of a case run
    in order; a case that ends without a transfer falls through into the next case; If transfers only on the branch
    that has a target; Yield stores the label of the next subroutine and returns (the caller resumes at once)."""
    trace: List[Tuple[str, str]] = []
    pos = 0
    index_of = {}
    for i, sub in enumerate(subroutines):
        index_of[sub[0].label] = i
    si = 0  # index of the subroutine being executed
    steps = 0
    while True:
        if si >= len(subroutines):
            trace.append(("end", ""))  # fell off the last case (see DESIGN: 'default: throw' is outside linear.py)
            return trace
        sub = subroutines[si]
        transferred = False
        for k, st in enumerate(sub):
            steps += 1
            if steps > 400:
                fail("machine:does-not-terminate-without-evaluating-conditions")
            if isinstance(st, LN.Command):
                trace.append(("cmd", st.code))
                if len(trace) >= max_events:
                    return trace
                if k == len(sub) - 1 and si == len(subroutines) - 1:
                    trace.append(("end", ""))  # epilogue: invalidate the state and return
                    return trace
            elif isinstance(st, LN.Yield):
                trace.append(("yield", ""))
                if len(trace) >= max_events:
                    return trace
                if k != len(sub) - 1:
                    # anything after a yield inside the same case would be dead code / lost on resume
                    fail("machine:statement-after-yield-in-the-same-subroutine")
                si = si + 1  # state = label of the next subroutine; return; resumed
                transferred = True
                break
            elif isinstance(st, LN.Noop):
                pass
            elif isinstance(st, LN.Jump):
                if st.target not in index_of:
                    fail("machine:jump-target-is-not-a-subroutine-label")
                si = index_of[st.target]
                transferred = True
                break
            elif isinstance(st, LN.If):
                if pos >= len(outcomes):
                    return trace
                v = outcomes[pos]
                pos += 1
                if v:
                    trace.append(("cond", st.condition + "=T"))
                    target = st.on_true
                else:
                    trace.append(("cond", st.condition + "=F"))
                    target = st.on_false
                if st.on_true is None and st.on_false is None:
                    fail("machine:if-without-any-target")
                if len(trace) >= max_events:
                    return trace
                if target is not None:
                    if target not in index_of:
                        fail("machine:if-target-is-not-a-subroutine-label")
                    si = index_of[target]
                    transferred = True
                    break
            else:
                raise AssertionError(type(st))
        if not transferred:
            si += 1  # C++ switch fall-through into the next case


def check_flow(flow: List[Any], outcomes: List[bool]) -> str:
    subs = LN.linearize_to_subroutines(flow)
    # labels consecutive from 0
    for i, sub in enumerate(subs):
        if sub[0].label != i:
            fail("labels:not-consecutive-from-zero")
        for st in list(sub)[1:]:
            if st.label is not None:
                fail("labels:label-inside-a-subroutine")
    max_events = 40
    t1 = run_structured(flow, outcomes, max_events)
    if len(flow) == 0:
        if len(subs) != 0:
            fail("empty-flow:subroutines")
        return "empty"
    t2 = run_machine(subs, outcomes, max_events)
    n = min(len(t1), len(t2))
    for i in range(n):
        if t1[i] != t2[i]:
            fail("trace:differs", "flow=%s outcomes=%r structured=%r machine=%r", dump_flow(flow), outcomes, t1, t2)
    if len(t1) != len(t2):
        fail("trace:length-differs", "flow=%s outcomes=%r structured=%r machine=%r", dump_flow(flow), outcomes, t1, t2)
    return "events=%d" % min(len(t1), 6)


def dump_flow(flow: Any) -> str:
    out = []
    for n in flow:
        if isinstance(n, F.Command):
            out.append(n.code)
        elif isinstance(n, F.Yield):
            out.append("yield")
        elif isinstance(n, (F.IfTrue, F.IfFalse)):
            out.append("%s(%s){%s}%s" % (type(n).__name__, n.condition, dump_flow(n.body),
                                         "" if n.or_else is None else "else{%s}" % dump_flow(n.or_else)))
        elif isinstance(n, F.For):
            out.append("for(%s;%s;%s){%s}" % (n.init, n.condition, n.iteration, dump_flow(n.body)))
        else:
            out.append("while(%s){%s}" % (n.condition, dump_flow(n.body)))
    return " ".join(out)


def _decode(genome: List[int], max_nodes: int, max_depth: int) -> List[Any]:
    g = _Gen(genome, max_nodes, max_depth)
    flow = g.seq(0, 1)
    # unused genome positions must be zero (otherwise the same flow is explored many times)
    for j in range(g.i, len(genome)):
        assume(genome[j] == 0)
    return flow


def make_harness(params: Dict[str, Any]):
    glen = params["genome"]
    n_out = params["outcomes"]
    prefix = params["prefix"]
    max_nodes = params["max_nodes"]
    max_depth = params["max_depth"]

    def harness(genome: List[int], outcomes: List[bool]) -> Any:
        assume(len(genome) == glen)
        assume(len(outcomes) == n_out)
        for i, v in enumerate(prefix):
            assume(genome[i] == v)
        for v in genome:
            assume(0 <= v <= 5)
        flow = _decode(genome, max_nodes, max_depth)
        return check_flow(flow, outcomes)

    return harness


def _feasible_prefixes(glen: int, max_nodes: int, max_depth: int) -> List[List[int]]:
    import vf.common as vc
    from vf.common import AssumptionFailed
    saved, vc._IGNORE_EXC = vc._IGNORE_EXC, None  # plain concrete dry run, also inside a symbolic worker
    try:
        return _feasible_prefixes_concrete(glen, max_nodes, max_depth)
    finally:
        vc._IGNORE_EXC = saved


def _feasible_prefixes_concrete(glen: int, max_nodes: int, max_depth: int) -> List[List[int]]:
    from vf.common import AssumptionFailed
    out = []
    for g0 in range(2):
        for g1 in range(6):
            for g2 in range(6):
                genome = [g0, g1, g2] + [0] * (glen - 3)
                try:
                    _decode(genome, max_nodes, max_depth)
                except AssumptionFailed:
                    continue
                out.append([g0, g1, g2])
    return out


def shards(tier: str) -> List[Dict[str, Any]]:
    if tier == "quick":
        p = {"genome": 8, "outcomes": 4, "max_nodes": 3, "max_depth": 2}
        budget = 260
    else:
        p = {"genome": 12, "outcomes": 7, "max_nodes": 6, "max_depth": 3}
        budget = 1200
    out = []
    for prefix in _feasible_prefixes(p["genome"], p["max_nodes"], p["max_depth"]):
        out.append({"name": f"genome-prefix={prefix},nodes<={p['max_nodes']},depth<={p['max_depth']},"
                            f"outcomes={p['outcomes']}",
                    "params": {**p, "prefix": prefix}, "budget_s": budget, "per_path_timeout": 60})
    return out


def extra_checks(tier: str) -> Dict[str, Any]:
    """The flows the C++ generator really builds end with a command; record that the fall-through-to-default
    case of cpp/yielding.py is not reached from them (concrete, informational)."""
    return {"violations": [], "evidence": {}}


def describe(tier: str) -> Dict[str, Any]:
    s = shards(tier)[0]["params"]
    return {
        "functions": ["aas_core_codegen.yielding.linear.linearize_to_subroutines",
                      "aas_core_codegen.yielding.linear._linearize_sequence",
                      "aas_core_codegen.yielding.linear._compress_in_place",
                      "aas_core_codegen.yielding.linear._fix_labels_in_place",
                      "aas_core_codegen.yielding.linear._split_in_subroutines",
                      "aas_core_codegen.cpp.yielding._generate_subroutine_body"],
        "bounds": f"flows decoded from a symbolic genome of {s['genome']} ints in [0,5]: <= {s['max_nodes']} nodes, nesting "
                  f"<= {s['max_depth']}, sequences of <= 2 nodes, every node kind, else absent/empty/present, for with/without "
                  f"init; condition outcomes: {s['outcomes']} symbolic booleans; traces compared up to 40 events",
        "outside": "larger flows; the C++ text itself (the interpreter implements the semantics of the emitted switch: "
                   "sequential case bodies, fall-through, If transferring only on the branch with a target, Yield storing the "
                   "next label); termination by falling off the last case is treated as the end of the run (the emitted "
                   "C++ would reach 'default: throw' there; all flows built by cpp/lib/_generate_iteration.py end with a "
                   "command, which gets the return epilogue)",
        "stubs": [],
        "assumptions": ["the genome is a finite family: the solver enumerates the shapes (decoded structure), the condition "
                        "outcomes are genuinely symbolic"],
        "rule": "one path = one (flow shape, class of outcome sequences); oracle = reference interpreter of the structured "
                "flow vs. interpreter of the subroutines",
    }
