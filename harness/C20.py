"""C20 -- text from descriptions cannot break out of generated comments / docstrings (comment and docstring wrappers)."""
from __future__ import annotations

import os
import subprocess
import tempfile
from typing import Any, Dict, List, Optional

from aas_core_codegen.common import Stripped
from aas_core_codegen.cpp import description as cpp_description
from aas_core_codegen.golang import description as golang_description
from aas_core_codegen.java import description as java_description
from aas_core_codegen.python import description as python_description
from aas_core_codegen.typescript import description as typescript_description

from vf.common import assume, fail, symbolic
from vf.sym import codepoints

PROPERTY = "C20"
LEVEL = "model_checking"

WRAPPERS = {
    "python.docstring": python_description.docstring,
    "python.documentation_comment": python_description.documentation_comment,
    "java.documentation_comment": java_description.documentation_comment,
    "typescript.documentation_comment": typescript_description.documentation_comment,
    "cpp.documentation_comment": cpp_description.documentation_comment,
    "golang.documentation_comment": golang_description.documentation_comment,
}

# warm-up (icontract)
for _f in WRAPPERS.values():
    _f(Stripped("some text\nmore"))

QUOTE, BACKSLASH, STAR, SLASH, NL, CR = 34, 92, 42, 47, 10, 13


def lex_python_docstring(cps: List[Any]) -> Optional[str]:
    """None if ``cps`` is exactly one triple-double-quoted string literal; otherwise what is wrong."""
    n = len(cps)
    if n < 6 or not (cps[0] == QUOTE and cps[1] == QUOTE and cps[2] == QUOTE):
        return "does-not-open-with-three-quotes"
    i = 3
    while i < n:
        c = cps[i]
        if c == BACKSLASH:
            i += 2  # an escape: the next character never closes the literal
            continue
        if c == QUOTE and i + 2 <= n - 1 and cps[i + 1] == QUOTE and cps[i + 2] == QUOTE:
            # closing delimiter: must be the very end
            if i + 3 == n:
                return None
            return "closes-before-the-end"
        if c == 0:
            return "contains-NUL"
        i += 1
    return "never-closes"


def lex_line_comments(cps: List[Any], prefix: List[int], continuation: bool) -> Optional[str]:
    """Every physical line must start with ``prefix``; with ``continuation`` no line may end with a backslash."""
    lines: List[List[Any]] = [[]]
    for c in cps:
        if c == NL:
            lines.append([])
        else:
            lines[-1].append(c)
    for line in lines:
        if len(line) < len(prefix):
            return "line-outside-the-comment"
        for a, b in zip(line, prefix):
            if a != b:
                return "line-outside-the-comment"
        for c in line:
            if c == CR:
                return "carriage-return-inside-a-line"  # a lone CR ends a line for the compilers
            if c == 0:
                return "contains-NUL"
        if continuation and line[-1] == BACKSLASH:
            return "line-ends-with-a-backslash-which-splices-the-next-line"
    return None


def lex_block_comment(cps: List[Any]) -> Optional[str]:
    """``/** ... */``: the first ``*/`` must be the very end."""
    n = len(cps)
    if n < 5 or not (cps[0] == SLASH and cps[1] == STAR and cps[2] == STAR):
        return "does-not-open-with-slash-star-star"
    i = 3
    while i + 1 < n:
        if cps[i] == STAR and cps[i + 1] == SLASH:
            if i + 2 == n:
                return None
            return "closes-before-the-end"
        if cps[i] == 0:
            return "contains-NUL"
        i += 1
    return "never-closes"


def check(wrapper: str, text: Any) -> str:
    # Stripped: no leading/trailing blank, tab, newline (precondition of the wrappers' argument type)
    cps_in = codepoints(text)
    if len(cps_in) > 0:
        for edge in (cps_in[0], cps_in[-1]):
            assume((edge != 32) & (edge != 9) & (edge != 10))
    for c in cps_in:
        assume(c != 0)  # NUL cannot be written in a meta-model source (Python refuses it)
    out = WRAPPERS[wrapper](Stripped(text))
    cps = codepoints(out)
    if wrapper == "python.docstring":
        problem = lex_python_docstring(cps)
    elif wrapper == "python.documentation_comment":
        problem = lex_line_comments(cps, [35, 58], False)
    elif wrapper in ("java.documentation_comment", "typescript.documentation_comment"):
        problem = lex_block_comment(cps)
    elif wrapper == "cpp.documentation_comment":
        problem = lex_line_comments(cps, [47, 47, 47], True)
    else:
        problem = lex_line_comments(cps, [47, 47], False)
    if problem is not None:
        fail(f"{wrapper}:{problem}", "text %r -> %r", text, out)
    return "ok"


def make_harness(params: Dict[str, Any]):
    wrapper, n = params["wrapper"], params["len"]

    def harness(text: str) -> Any:
        assume(len(text) == n)
        return check(wrapper, text)

    return harness


def shards(tier: str) -> List[Dict[str, Any]]:
    out = []
    top = 4 if tier == "quick" else 6
    for wrapper in WRAPPERS:
        for n in range(1, top + 1):
            out.append({"name": f"{wrapper},len={n}", "params": {"wrapper": wrapper, "len": n},
                        "budget_s": 200 if tier == "quick" else 2400, "per_path_timeout": 60,
                        **({"exploratory": True} if n > (3 if tier == "quick" else 5) else {})})
    return out


def public_replay(params: Dict[str, Any], kwargs: Dict[str, Any]) -> Optional[str]:
    """The emitted comment / docstring in front of a declaration, given to the real language tool where one is installed."""
    wrapper = params["wrapper"]
    text = kwargs["text"]
    out = WRAPPERS[wrapper](Stripped(text))
    with tempfile.TemporaryDirectory() as tmp:
        if wrapper.startswith("python."):
            src = (f"def f():\n    {out}\n    return 1\n" if wrapper == "python.docstring"
                   else f"{out}\nx = 1\n")
            try:
                compile(src, "<generated>", "exec")
                return "python: compiles"
            except (SyntaxError, ValueError) as e:
                return f"python: {type(e).__name__}: {e}"
        if wrapper.startswith("cpp."):
            path = os.path.join(tmp, "a.cpp")
            open(path, "w", encoding="utf-8", newline="").write(f"{out}\nint x = 1;\nint y = x;\n")
            p = subprocess.run(["g++", "-fsyntax-only", "-Wno-comment", path], capture_output=True, text=True)
            return "g++: " + ("accepts" if p.returncode == 0 else p.stderr.strip().splitlines()[0][:200])
        if wrapper.startswith("typescript."):
            path = os.path.join(tmp, "a.js")
            open(path, "w", encoding="utf-8", newline="").write(f"{out}\nconst x = 1;\n")
            p = subprocess.run(["node", "--check", path], capture_output=True, text=True)
            return "node --check: " + ("accepts" if p.returncode == 0 else (p.stderr.strip().splitlines() or ["rejects"])[-1][:200])
        if wrapper.startswith("java."):
            path = os.path.join(tmp, "A.java")
            open(path, "w", encoding="utf-8", newline="").write(f"{out}\nclass A {{ int x = 1; }}\n")
            p = subprocess.run(["javac", "-proc:none", "-d", tmp, path], capture_output=True, text=True)
            return "javac: " + ("accepts" if p.returncode == 0 else (p.stdout + p.stderr).strip().splitlines()[0][:200])
    return None


def describe(tier: str) -> Dict[str, Any]:
    s = shards(tier)
    return {
        "functions": ["aas_core_codegen.python.description.docstring", "aas_core_codegen.python.description.documentation_comment",
                      "aas_core_codegen.java.description.documentation_comment",
                      "aas_core_codegen.typescript.description.documentation_comment",
                      "aas_core_codegen.cpp.description.documentation_comment",
                      "aas_core_codegen.golang.description.documentation_comment"],
        "bounds": f"text: symbolic Stripped string over all of Unicode (no NUL), exhaustively for length <= {3 if tier == 'quick' else 5}, "
                  f"budgeted exploration for length {max(x['params']['len'] for x in s)}; per wrapper a lexer of the target language's "
                  "comment / triple-quoted-string syntax decides whether the output is exactly ONE comment block / docstring",
        "outside": "whole generated files (the property's 'every generated file parses'): only the wrappers through which description text "
                   "reaches the files are decided; the rendering of reST elements before the wrapper (docutils realizes symbolic text); "
                   "C# XML documentation; string literals are C19",
        "stubs": [],
        "assumptions": ["the argument satisfies Stripped's precondition; no NUL",
                        "C++: a comment line ending in a backslash splices the following line into the comment (translation phase 2)"],
        "rule": "one shard per wrapper and text length; witnesses are replayed through compile() / g++ -fsyntax-only / node --check / javac",
    }
