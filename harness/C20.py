"""C20 -- text from descriptions cannot break out of generated comments / docstrings (comment and docstring wrappers)."""
from __future__ import annotations

import os
import subprocess
import tempfile
from typing import Any, Dict, List, Optional

from aas_core_codegen.common import Stripped
from aas_core_codegen.cpp import description as cpp_description
from aas_core_codegen.csharp import description as csharp_description
from aas_core_codegen.golang import description as golang_description
from aas_core_codegen.java import description as java_description
from aas_core_codegen.python import description as python_description
from aas_core_codegen.typescript import description as typescript_description

from vf.common import assume, fail, symbolic
from vf.sym import codepoints

PROPERTY = "C20"
LEVEL = "model_checking"

WRAPPERS = {
    "python.docstring": python_description.docstring,
    "python.documentation_comment": python_description.documentation_comment,
    "java.documentation_comment": java_description.documentation_comment,
    "typescript.documentation_comment": typescript_description.documentation_comment,
    "cpp.documentation_comment": cpp_description.documentation_comment,
    "golang.documentation_comment": golang_description.documentation_comment,
}

# warm-up (icontract)
for _f in WRAPPERS.values():
    _f(Stripped("some text\nmore"))

QUOTE, BACKSLASH, STAR, SLASH, NL, CR = 34, 92, 42, 47, 10, 13


def lex_python_docstring(cps: List[Any]) -> Optional[str]:
    """None if ``cps`` is exactly one triple-double-quoted string literal; otherwise what is wrong."""
    n = len(cps)
    if n < 6 or not (cps[0] == QUOTE and cps[1] == QUOTE and cps[2] == QUOTE):
        return "does-not-open-with-three-quotes"
    i = 3
    while i < n:
        c = cps[i]
        if c == BACKSLASH:
            i += 2  # an escape: the next character never closes the literal
            continue
        if c == QUOTE and i + 2 <= n - 1 and cps[i + 1] == QUOTE and cps[i + 2] == QUOTE:
            # closing delimiter: must be the very end
            if i + 3 == n:
                return None
            return "closes-before-the-end"
        if c == 0:
            return "contains-NUL"
        i += 1
    return "never-closes"


def lex_line_comments(cps: List[Any], prefix: List[int], continuation: bool) -> Optional[str]:
    """Every physical line must start with ``prefix``; with ``continuation`` no line may end with a backslash."""
    lines: List[List[Any]] = [[]]
    for c in cps:
        if c == NL:
            lines.append([])
        else:
            lines[-1].append(c)
    for line in lines:
        if len(line) < len(prefix):
            return "line-outside-the-comment"
        for a, b in zip(line, prefix):
            if a != b:
                return "line-outside-the-comment"
        for c in line:
            if c == CR:
                return "carriage-return-inside-a-line"  # a lone CR ends a line for the compilers
            if c == 0:
                return "contains-NUL"
        if continuation and line[-1] == BACKSLASH:
            return "line-ends-with-a-backslash-which-splices-the-next-line"
    return None


def lex_block_comment(cps: List[Any]) -> Optional[str]:
    """``/** ... */``: the first ``*/`` must be the very end."""
    n = len(cps)
    if n < 5 or not (cps[0] == SLASH and cps[1] == STAR and cps[2] == STAR):
        return "does-not-open-with-slash-star-star"
    i = 3
    while i + 1 < n:
        if cps[i] == STAR and cps[i + 1] == SLASH:
            if i + 2 == n:
                return None
            return "closes-before-the-end"
        if cps[i] == 0:
            return "contains-NUL"
        i += 1
    return "never-closes"


# ---- C#: documentation comments are XML ------------------------------------------------------------------------------
LT, GT, AMP, SEMI, RBRACKET = 60, 62, 38, 59, 93
CS_TAGS = ["<summary>", "</summary>", "<remarks>", "</remarks>", "<para>", "</para>", "<c>", "</c>", "<em>", "</em>", "<li>", "</li>",
           "<ul>", "</ul>"]
XML_ENTITIES = ["amp;", "lt;", "gt;", "quot;", "apos;"]
CS_SHAPES = ["summary-text", "summary-code", "remarks-text"]


class _FakeDescription:
    """What csharp.description._render_summary_remarks reads of a description; the 'docutils elements' are already our nodes."""

    def __init__(self, summary: Any, remarks: List[Any]) -> None:
        self.summary, self.remarks = summary, remarks
        self.parsed = type("Parsed", (), {"node": None})()


def csharp_comment(shape: str, text: Any) -> Any:
    """The REAL _generate_summary_remarks (compression, indention, escaping, '///' lines) on a node tree holding ``text``; only
    the docutils visitor in front of it (_ElementRenderer.transform, which needs docutils nodes = concrete strings) is stubbed."""
    d = csharp_description
    text_node = d._Text(text)
    if shape == "summary-text":
        desc = _FakeDescription(d._List(items=[d._Text("See "), text_node]), [])
    elif shape == "summary-code":
        desc = _FakeDescription(d._List(items=[d._Text("See "), d._Element(name="c", children=d._List(items=[text_node])),
                                               d._Text(".")]), [])
    else:
        desc = _FakeDescription(d._Text("S"), [d._Element(name="para", children=d._List(items=[text_node])),
                                               d._Element(name="para", children=d._List(items=[d._Text("M")]))])
    original = d._ElementRenderer.transform
    d._ElementRenderer.transform = lambda self, element: (element, None)  # type: ignore
    try:
        code, errors = d._generate_summary_remarks(desc)  # type: ignore
    finally:
        d._ElementRenderer.transform = original  # type: ignore
    if errors is not None or code is None:
        fail("csharp.documentation-comment:errors-for-plain-text", "%r", errors)
    return code


def _is_xml_char(c: Any) -> Any:
    return (c == 9) | (c == 10) | (c == 13) | ((c >= 0x20) & (c <= 0xD7FF)) | ((c >= 0xE000) & (c <= 0xFFFD)) | (c >= 0x10000)


def lex_csharp_xml_comment(cps: List[Any]) -> Optional[str]:
    """None if ``cps`` is a block of '///' lines whose content is a well-formed XML fragment over the known tags."""
    lines: List[List[Any]] = [[]]
    for c in cps:
        if c == NL:
            lines.append([])
        else:
            lines[-1].append(c)
    content: List[Any] = []
    for line in lines:
        if len(line) < 3 or not (line[0] == SLASH and line[1] == SLASH and line[2] == SLASH):
            return "line-outside-the-comment"
        for c in line:
            if c == CR or c == 0x85 or c == 0x2028 or c == 0x2029:
                return "line-terminator-inside-a-line"
        content.extend(line[3:])
        content.append(NL)
    n = len(content)
    stack: List[str] = []
    i = 0
    while i < n:
        c = content[i]
        if c == LT:
            matched = None
            for tag in CS_TAGS:
                if i + len(tag) <= n:
                    same = True
                    for k, ch in enumerate(tag):
                        if not (content[i + k] == ord(ch)):
                            same = False
                            break
                    if same:
                        matched = tag
                        break
            if matched is None:
                return "markup-which-the-generator-did-not-write"
            if matched.startswith("</"):
                if len(stack) == 0 or stack[-1] != matched[2:-1]:
                    return "unbalanced-tags"
                stack.pop()
            else:
                stack.append(matched[1:-1])
            i += len(matched)
            continue
        if c == AMP:
            matched_entity = None
            for entity in XML_ENTITIES:
                if i + 1 + len(entity) <= n:
                    same = True
                    for k, ch in enumerate(entity):
                        if not (content[i + 1 + k] == ord(ch)):
                            same = False
                            break
                    if same:
                        matched_entity = entity
                        break
            if matched_entity is None:
                return "ampersand-which-starts-no-entity"
            i += 1 + len(matched_entity)
            continue
        if c == GT and i >= 2 and content[i - 1] == RBRACKET and content[i - 2] == RBRACKET:
            return "cdata-end-marker-in-character-data"
        if not _is_xml_char(c):
            return "character-which-xml-cannot-contain"
        i += 1
    if len(stack) != 0:
        return "unbalanced-tags"
    return None


def check_csharp(shape: str, text: Any) -> str:
    for c in codepoints(text):
        assume(c != 0)
    out = csharp_comment(shape, text)
    problem = lex_csharp_xml_comment(codepoints(out))
    if problem is not None:
        fail(f"csharp.documentation-comment:{problem}", "text %r in %s -> %r", text, shape, out)
    return "ok"


def check(wrapper: str, text: Any) -> str:
    if wrapper.startswith("csharp:"):
        return check_csharp(wrapper[len("csharp:"):], text)
    # Stripped: no leading/trailing blank, tab, newline (precondition of the wrappers' argument type)
    cps_in = codepoints(text)
    if len(cps_in) > 0:
        for edge in (cps_in[0], cps_in[-1]):
            assume((edge != 32) & (edge != 9) & (edge != 10))
    for c in cps_in:
        assume(c != 0)  # NUL cannot be written in a meta-model source (Python refuses it)
    out = WRAPPERS[wrapper](Stripped(text))
    cps = codepoints(out)
    if wrapper == "python.docstring":
        problem = lex_python_docstring(cps)
    elif wrapper == "python.documentation_comment":
        problem = lex_line_comments(cps, [35, 58], False)
    elif wrapper in ("java.documentation_comment", "typescript.documentation_comment"):
        problem = lex_block_comment(cps)
    elif wrapper == "cpp.documentation_comment":
        problem = lex_line_comments(cps, [47, 47, 47], True)
    else:
        problem = lex_line_comments(cps, [47, 47], False)
    if problem is not None:
        fail(f"{wrapper}:{problem}", "text %r -> %r", text, out)
    return "ok"


MARKUP_ALPHABET = [60, 62, 38, 93, 91, 34, 39, 45, 33, 59, 47, 97, 10]  # < > & ] [ " ' - ! ; / a NL


def make_harness(params: Dict[str, Any]):
    wrapper, n = params["wrapper"], params["len"]
    alphabet = params.get("alphabet")

    def harness(text: str) -> Any:
        assume(len(text) == n)
        if alphabet is not None:
            for c in codepoints(text):
                member: Any = False
                for a in alphabet:
                    member = member | (c == a)
                assume(member)
        return check(wrapper, text)

    return harness


def shards(tier: str) -> List[Dict[str, Any]]:
    out = []
    top = 4 if tier == "quick" else 6
    for wrapper in WRAPPERS:
        for n in range(1, top + 1):
            out.append({"name": f"{wrapper},len={n}", "params": {"wrapper": wrapper, "len": n},
                        "budget_s": 200 if tier == "quick" else 2400, "per_path_timeout": 60,
                        **({"exploratory": True} if n > (3 if tier == "quick" else 5) else {})})
    # C#: the XML lexer costs more solver queries per character; exhaustive for length <= 2 (3), one more budgeted
    for shape in CS_SHAPES:
        for n in range(1, (3 if tier == "quick" else 4) + 1):
            deep = n > (2 if tier == "quick" else 3)
            if shape == "remarks-text":
                # the new-line enforcement between block elements forks on every character: explored under a budget only
                if n > (1 if tier == "quick" else 2):
                    continue
                deep = True
            out.append({"name": f"csharp:{shape},len={n}", "params": {"wrapper": "csharp:" + shape, "len": n},
                        "budget_s": (80 if deep else 300) if tier == "quick" else 2400, "per_path_timeout": 60,
                        **({"exploratory": True} if deep else {})})
        if shape != "remarks-text":
            # one character more over the characters which mean something in XML (']]>', '&#1;', '<!-' ... need three)
            n = 3 if tier == "quick" else 4
            out.append({"name": f"csharp:{shape},len={n},markup-alphabet", "params": {"wrapper": "csharp:" + shape, "len": n,
                                                                                     "alphabet": MARKUP_ALPHABET},
                        "budget_s": 450 if tier == "quick" else 2400, "per_path_timeout": 60})
    out.sort(key=lambda shard: -shard["budget_s"] if not shard.get("exploratory") else 0)
    return out


def public_replay(params: Dict[str, Any], kwargs: Dict[str, Any]) -> Optional[str]:
    """The emitted comment / docstring in front of a declaration, given to the real language tool where one is installed."""
    wrapper = params["wrapper"]
    text = kwargs["text"]
    if wrapper.startswith("csharp:"):
        out = csharp_comment(wrapper[len("csharp:"):], text)
        content = "\n".join(line[3:] for line in out.split("\n"))
        import xml.parsers.expat
        parser = xml.parsers.expat.ParserCreate()
        try:
            parser.Parse("<doc>" + content + "</doc>", True)
            return "expat: well-formed"
        except (xml.parsers.expat.ExpatError, ValueError, UnicodeEncodeError) as e:
            return f"expat: {e}"
    out = WRAPPERS[wrapper](Stripped(text))
    with tempfile.TemporaryDirectory() as tmp:
        if wrapper.startswith("python."):
            src = (f"def f():\n    {out}\n    return 1\n" if wrapper == "python.docstring"
                   else f"{out}\nx = 1\n")
            try:
                compile(src, "<generated>", "exec")
                return "python: compiles"
            except (SyntaxError, ValueError) as e:
                return f"python: {type(e).__name__}: {e}"
        if wrapper.startswith("cpp."):
            path = os.path.join(tmp, "a.cpp")
            open(path, "w", encoding="utf-8", newline="").write(f"{out}\nint x = 1;\nint y = x;\n")
            p = subprocess.run(["g++", "-fsyntax-only", "-Wno-comment", path], capture_output=True, text=True)
            return "g++: " + ("accepts" if p.returncode == 0 else p.stderr.strip().splitlines()[0][:200])
        if wrapper.startswith("typescript."):
            path = os.path.join(tmp, "a.js")
            open(path, "w", encoding="utf-8", newline="").write(f"{out}\nconst x = 1;\n")
            p = subprocess.run(["node", "--check", path], capture_output=True, text=True)
            return "node --check: " + ("accepts" if p.returncode == 0 else (p.stderr.strip().splitlines() or ["rejects"])[-1][:200])
        if wrapper.startswith("java."):
            path = os.path.join(tmp, "A.java")
            open(path, "w", encoding="utf-8", newline="").write(f"{out}\nclass A {{ int x = 1; }}\n")
            p = subprocess.run(["javac", "-proc:none", "-d", tmp, path], capture_output=True, text=True)
            return "javac: " + ("accepts" if p.returncode == 0 else (p.stdout + p.stderr).strip().splitlines()[0][:200])
    return None


def describe(tier: str) -> Dict[str, Any]:
    s = shards(tier)
    return {
        "functions": ["aas_core_codegen.python.description.docstring", "aas_core_codegen.python.description.documentation_comment",
                      "aas_core_codegen.java.description.documentation_comment",
                      "aas_core_codegen.typescript.description.documentation_comment",
                      "aas_core_codegen.cpp.description.documentation_comment",
                      "aas_core_codegen.golang.description.documentation_comment",
                      "aas_core_codegen.csharp.description._generate_summary_remarks", "aas_core_codegen.csharp.description._render_summary_remarks",
                      "aas_core_codegen.csharp.description._compress_node_in_place", "aas_core_codegen.csharp.description._to_text",
                      "aas_core_codegen.csharp.description._ToTextDirectivesVisitor"],
        "bounds": f"text: symbolic Stripped string over all of Unicode (no NUL), exhaustively for length <= {3 if tier == 'quick' else 5}, "
                  f"budgeted exploration for length {max(x['params']['len'] for x in s)}; per wrapper a lexer of the target language's "
                  "comment / triple-quoted-string syntax decides whether the output is exactly ONE comment block / docstring. C#: the real "
                  "_generate_summary_remarks on node trees (text in the summary, inside <c>, inside a remarks paragraph) holding a symbolic "
                  f"text of length <= {2 if tier == 'quick' else 3} (one more budgeted; the remarks shape only budgeted), and of length {3 if tier == 'quick' else 4} over the 13 characters "
                  f"which mean something in XML: every line is a '///' line without a C# line terminator "
                  "and the content is a well-formed XML fragment (known tags balanced, no raw '<', every '&' starts a predefined entity, "
                  "no ']]>', only XML characters)",
        "outside": "whole generated files (the property's 'every generated file parses'): only the wrappers through which description text "
                   "reaches the files are decided; the rendering of reST elements before the wrapper (docutils realizes symbolic text); "
                   "C#: attribute values (cref names come from the naming functions, not from description text); string literals are C19",
        "stubs": ["C#: csharp.description._ElementRenderer.transform (the docutils visitor) hands over a prepared node tree"],
        "assumptions": ["the argument satisfies Stripped's precondition (C#: any text); no NUL",
                        "C++: a comment line ending in a backslash splices the following line into the comment (translation phase 2)"],
        "rule": "one shard per wrapper and text length; witnesses are replayed through compile() / g++ -fsyntax-only / node --check / javac",
    }
