"""C04 -- reported error locations point at the offending construct (common.LinenoColumner)."""
from __future__ import annotations

import ast
import pathlib
from typing import Any, Dict, List, Optional, Tuple

from aas_core_codegen.common import Error, LinenoColumner

from vf.common import REPO, Violation, assume, fail, symbolic

PROPERTY = "C04"
LEVEL = "model_checking"


class _StubAtok:
    """Stands for asttokens.ASTTokens: the text of the tree and the start offset of a node."""

    def __init__(self, text: str) -> None:
        self._text = text
        self.tree = None
        self.start = 0

    def get_text(self, node: Any) -> str:
        return self._text

    def get_text_range(self, node: Any) -> Tuple[int, int]:
        return (self.start, self.start)


def _expected(text: str, start: int) -> Tuple[int, int]:
    """1-based line and column of offset ``start``, by the textbook definition."""
    line = 1
    last_newline = -1
    i = 0
    for ch in text:
        if i >= start:
            break
        if ch == "\n":
            line += 1
            last_newline = i
        i += 1
    return line, start - last_newline


def check_text(text: str) -> str:
    atok = _StubAtok(text)
    lc = LinenoColumner(atok)  # type: ignore
    node = ast.Pass()
    n = len(text)
    shifted_at = -1
    for start in range(n):
        atok.start = start
        el, ec = _expected(text, start)
        msg = lc.error_message(Error(node, "m"))
        if msg == f"At line {el} and column {ec}: m":
            continue
        if el >= 2 and msg == f"At line {el} and column {ec + 1}: m" and text[start] != "\n":
            # the known deviation; keep looking for any OTHER deviation on this path first
            shifted_at = start
            continue
        if text[start] == "\n":
            # a construct never starts at a line break (no token does); not part of the property
            continue
        fail("location:wrong", "text=%r start=%d expected line %d column %d, got %r", text, start, el, ec, msg)
    if shifted_at >= 0:
        fail("location:column-shifted-by-one-after-first-line",
             "text=%r start=%d: column reported one too large", text, shifted_at)
    return "lines=%d" % min(3, 1 + sum(1 for c in text if c == "\n"))


def make_harness(params: Dict[str, Any]):
    max_len = params["max_len"]
    nl = params["newlines"]

    def harness(text: str) -> Any:
        assume(1 <= len(text) <= max_len)
        assume("\r" not in text)  # load_model reads the file with universal newlines
        assume(sum(1 for c in text if c == "\n") == nl if nl < 3 else sum(1 for c in text if c == "\n") >= 3)
        return check_text(text)

    return harness


def shards(tier: str) -> List[Dict[str, Any]]:
    max_len = 6 if tier == "quick" else 9
    return [{"name": f"len<={max_len},newlines={'>=3' if k == 3 else k}",
             "params": {"max_len": max_len, "newlines": k},
             "budget_s": 120 if tier == "quick" else 1200, "per_path_timeout": 30} for k in range(4)]


# ---- concrete cross-check through the real asttokens on the repository's rejected models ----------
def _located_errors(err: Error, out: List[Error]) -> None:
    if err.node is not None:
        out.append(err)
    for u in err.underlying or []:
        _located_errors(u, out)


def _check_model_text(text: str, name: str, stats: Dict[str, int], violations: List[Dict[str, Any]]) -> None:
    from aas_core_codegen import parse, intermediate
    atok, exc = parse.source_to_atok(source=text)
    if exc is not None:
        return
    lc = LinenoColumner(atok=atok)
    pst, error = parse.atok_to_symbol_table(atok=atok)
    if error is None:
        _, error = intermediate.translate(parsed_symbol_table=pst, atok=atok)
    if error is None:
        return
    errs: List[Error] = []
    _located_errors(error, errs)
    lines = text.split("\n")
    for e in errs:
        node = e.node
        if not hasattr(node, "lineno"):
            continue
        stats["located_errors"] += 1
        el = node.lineno
        # col_offset counts UTF-8 bytes
        ec = len(lines[el - 1].encode("utf-8")[: node.col_offset].decode("utf-8")) + 1
        # decorators: asttokens starts a decorated definition at the '@'
        alt = None
        if getattr(node, "decorator_list", None):
            d = node.decorator_list[0]
            alt = (d.lineno, len(lines[d.lineno - 1].encode("utf-8")[: d.col_offset].decode("utf-8")))  # the '@'
        msg = LinenoColumner.error_message(lc, Error(node, "m"))
        # asttokens pads multi-line statements to the start of their first line: the property admits
        # "the column of the construct's first character or of the first character of its line"
        candidates = [(el, ec), (el, 1)] + ([alt, (alt[0], 1)] if alt else [])
        if any(msg == f"At line {a} and column {b}: m" for a, b in candidates):
            stats["exact"] += 1
            continue
        if any(a >= 2 and msg == f"At line {a} and column {b + 1}: m" for a, b in candidates):
            stats["shifted"] += 1
            key = "location:column-shifted-by-one-after-first-line"
        else:
            key = "location:wrong"
        if not any(v["key"] == key for v in violations):
            violations.append({"key": key, "msg": f"{name}: node at line {el} col {ec}: reported {msg!r}",
                               "args": {"model": name}})


def extra_checks(tier: str) -> Dict[str, Any]:
    stats = {"models": 0, "located_errors": 0, "exact": 0, "shifted": 0}
    violations: List[Dict[str, Any]] = []
    base = REPO / "dev" / "test_data"
    paths = sorted(list((base / "parse" / "unexpected").glob("**/meta_model.py"))
                   + list((base / "intermediate" / "unexpected").glob("**/meta_model.py"))
                   + list((base / "smoke").glob("**/meta_model.py")))
    for p in paths:
        stats["models"] += 1
        try:
            _check_model_text(p.read_text(encoding="utf-8"), str(p.relative_to(base)), stats, violations)
        except Exception as e:  # front-end crash is C01's business, not C04's
            stats["front_end_raised"] = stats.get("front_end_raised", 0) + 1
    return {"violations": violations,
            "evidence": {"concrete_cross_check_through_real_asttokens": stats}}


def describe(tier: str) -> Dict[str, Any]:
    s = shards(tier)
    return {
        "functions": ["aas_core_codegen.common.LinenoColumner.__init__",
                      "aas_core_codegen.common.LinenoColumner.error_message"],
        "bounds": f"source text: symbolic str over all of Unicode without CR, 1 <= len <= {s[0]['params']['max_len']}, "
                  "sharded by number of line breaks (0,1,2,>=3); EVERY start offset of the text is checked on every path",
        "outside": "asttokens' node->offset mapping (trusted library; cross-checked concretely on the repository's "
                   "rejected models, reported under concrete_cross_check_through_real_asttokens); which node an error is "
                   "attached to; longer texts (the position table is built by one loop with two counters, so a text "
                   "with three line breaks exercises every transition)",
        "stubs": ["asttokens.ASTTokens -> stub returning the symbolic text and the chosen start offset"],
        "assumptions": ["no CR in the text: run.load_model reads the model with universal newlines",
                        "offsets pointing at a line break itself are not checked (no construct starts there)"],
        "rule": "symbolic source text; oracle = textbook 1-based (line, column) of the offset",
    }
