"""C27 -- message wrapping keeps text and layout rules (common.wrap_text_into_lines)."""
from __future__ import annotations

from typing import Any, Dict, List

from aas_core_codegen.common import wrap_text_into_lines

from vf.common import Violation, assume, fail

PROPERTY = "C27"
LEVEL = "model_checking"

ARTICLES = ("a", "an", "the")

# warm-up (icontract's ContextVar must exist before tracing starts)
wrap_text_into_lines("the quick a fox", 4)


def _words(segment: str) -> List[str]:
    return [w for w in segment.split(" ") if len(w) > 0]


def _units(words: List[str]) -> int:
    """Number of unbreakable units: a non-article word absorbs the one article directly before it."""
    n = 0
    prev_article = False
    for w in words:
        if w in ARTICLES:
            n += 1
            prev_article = True
        else:
            if not prev_article:
                n += 1
            prev_article = False
    return n


def check(text: str, width: int) -> str:
    segments = wrap_text_into_lines(text, width)  # the @ensure (text == "".join(result)) is armed
    if "".join(segments) != text:
        fail("wrap:text-not-preserved", "%r", segments)
    words_after: List[List[str]] = []
    all_words = [_words(s) for s in segments]
    for i, seg in enumerate(segments):
        ws = all_words[i]
        if len(seg) > width and _units(ws) > 1:
            fail("wrap:segment-over-width-with-several-units", "%r width=%d in %r", seg, width, segments)
        if len(ws) > 0 and ws[-1] in ARTICLES:
            following = None
            for later in all_words[i + 1:]:
                if len(later) > 0:
                    following = later[0]
                    break
            if following is not None and following not in ARTICLES:
                fail("wrap:article-ends-segment", "%r width=%d", segments, width)
    return "segments=%d" % min(len(segments), 4)


def make_harness(params: Dict[str, Any]):
    max_len = params["max_len"]
    width = params["width"]
    first = params.get("first")

    def harness(text: str) -> Any:
        assume(len(text) <= max_len)
        if first == "space":
            assume(len(text) > 0 and text[0] == " ")
        elif first == "a":
            assume(len(text) > 0 and text[0] == "a")
        elif first == "t":
            assume(len(text) > 0 and text[0] == "t")
        elif first == "other":
            assume(len(text) == 0 or (text[0] != " " and text[0] != "a" and text[0] != "t"))
        return check(text, width)

    return harness


def shards(tier: str) -> List[Dict[str, Any]]:
    if tier == "quick":
        max_len, widths, budget = 5, (1, 2, 3, 4), 150
    else:
        max_len, widths, budget = 7, (1, 2, 3, 4, 5, 6), 1500
    out = []
    for w in widths:
        for first in ("space", "a", "t", "other"):
            out.append({"name": f"len<={max_len},width={w},first={first}",
                        "params": {"max_len": max_len, "width": w, "first": first},
                        "budget_s": budget, "per_path_timeout": 30})
    return out


def describe(tier: str) -> Dict[str, Any]:
    s = shards(tier)
    return {
        "functions": ["aas_core_codegen.common.wrap_text_into_lines"],
        "bounds": f"text: symbolic str over all of Unicode, len <= {s[0]['params']['max_len']}; "
                  f"line_width in {sorted({x['params']['width'] for x in s})} (one shard per width and first-character "
                  "class)",
        "outside": "longer texts and larger widths; behaviour on separators other than U+0020 is whatever the code "
                   "does (the property speaks of words separated by spaces)",
        "stubs": [],
        "assumptions": [
            "oracle reading: a segment longer than the width must consist of exactly one unbreakable unit "
            "(a word, or an article with the word after it) plus its trailing space; an article ends a segment "
            "only if no non-article word follows anywhere later",
        ],
        "rule": "symbolic text and concrete width per shard; every path of wrap_text_into_lines and of the oracle "
                "is enumerated by the solver",
    }
