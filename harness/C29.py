"""C29 -- traversal and accessors of the generated Python SDK are complete."""
from __future__ import annotations

from typing import Any, Dict, List, Optional, Tuple

from aas_core_codegen import intermediate
from aas_core_codegen.common import Identifier
from aas_core_codegen.python import naming as python_naming

from vf.common import assume, fail
from vf.sdk import Pool
import harness.C08 as c08

PROPERTY = "C29"
LEVEL = "translation_validation"


def _is_class(ta: Any) -> bool:
    return isinstance(ta, intermediate.OurTypeAnnotation) and isinstance(
        ta.our_type, (intermediate.AbstractClass, intermediate.ConcreteClass))


def ir_class_of(sdk: Any, instance: Any) -> intermediate.ConcreteClass:
    for c in sdk.concrete_classes():
        if type(instance) is sdk.sdk_class(c):
            return c
    raise AssertionError(type(instance))


def expected_descend_once(sdk: Any, instance: Any) -> List[Any]:
    cls = ir_class_of(sdk, instance)
    out: List[Any] = []
    for prop in cls.properties:
        value = getattr(instance, python_naming.property_name(prop.name))
        if value is None:
            continue
        ta = intermediate.beneath_optional(prop.type_annotation)
        if _is_class(ta):
            out.append(value)
        elif isinstance(ta, intermediate.ListTypeAnnotation) and _is_class(ta.items):
            out.extend(value)
    return out


def expected_descend(sdk: Any, instance: Any) -> List[Any]:
    out: List[Any] = []
    for child in expected_descend_once(sdk, instance):
        out.append(child)
        out.extend(expected_descend(sdk, child))
    return out


def _same_objects(got: List[Any], want: List[Any]) -> bool:
    return len(got) == len(want) and all(g is w for g, w in zip(got, want))


def check(model: str, cls_name: str, pool: Pool, depth: int, list_len: int, focus: Any = None) -> str:
    sdk = c08.sdk_of(model)
    cls = sdk.symbol_table.must_find_class(cls_name)
    instance, _ = sdk.build(cls, pool, depth, list_len, symbolic_props=focus)
    pool.finish()
    assume(not pool.exhausted)
    types = sdk.types

    # ---- descend_once / descend
    want_once = expected_descend_once(sdk, instance)
    got_once = list(instance.descend_once())
    if not _same_objects(got_once, want_once):
        fail("descend_once:differs-from-the-directly-nested-instances", "%s: got %r want %r", cls_name,
             [type(x).__name__ for x in got_once], [type(x).__name__ for x in want_once])
    want_all = expected_descend(sdk, instance)
    got_all = list(instance.descend())
    if not _same_objects(got_all, want_all):
        fail("descend:differs-from-the-pre-order-of-nested-instances", "%s: got %r want %r", cls_name,
             [type(x).__name__ for x in got_all], [type(x).__name__ for x in want_all])

    # ---- dispatch (on the instance and on everything below it)
    concrete = sdk.concrete_classes()
    for target in [instance] + want_all:
        target_cls = ir_class_of(sdk, target)
        log: List[Tuple[str, Any, Any]] = []

        def recorder(name: str, with_context: bool, result: Any = None):
            if with_context:
                def method(self: Any, that: Any, context: Any) -> Any:
                    log.append((name, that, context))
                    return result
            else:
                def method(self: Any, that: Any) -> Any:  # type: ignore
                    log.append((name, that, None))
                    return result
            return method

        visitor_ns: Dict[str, Any] = {}
        visitor_ctx_ns: Dict[str, Any] = {}
        transformer_ns: Dict[str, Any] = {}
        transformer_ctx_ns: Dict[str, Any] = {}
        for c in concrete:
            visitor_ns[python_naming.method_name(Identifier(f"visit_{c.name}"))] = recorder(c.name, False)
            visitor_ctx_ns[python_naming.method_name(Identifier(f"visit_{c.name}_with_context"))] = recorder(c.name, True)
            transformer_ns[python_naming.method_name(Identifier(f"transform_{c.name}"))] = recorder(c.name, False, "T:" + c.name)
            transformer_ctx_ns[python_naming.method_name(Identifier(f"transform_{c.name}_with_context"))] = \
                recorder(c.name, True, "TC:" + c.name)
        context = object()

        def expect_log(what: str, ctx: Any) -> None:
            if len(log) != 1 or log[0][0] != target_cls.name or log[0][1] is not target or log[0][2] is not ctx:
                fail("dispatch:" + what + "-does-not-reach-the-method-of-the-concrete-class", "%s: log=%r", target_cls.name,
                     [(n, type(t).__name__) for n, t, _ in log])
            del log[:]

        target.accept(type("V", (types.AbstractVisitor,), visitor_ns)())
        expect_log("accept", None)
        target.accept_with_context(type("VC", (types.AbstractVisitorWithContext,), visitor_ctx_ns)(), context)
        expect_log("accept_with_context", context)
        r = target.transform(type("T", (types.AbstractTransformer,), transformer_ns)())
        if r != "T:" + target_cls.name:
            fail("dispatch:transform-does-not-return-the-result-of-the-method", "%s: %r", target_cls.name, r)
        expect_log("transform", None)
        r = target.transform_with_context(type("TC", (types.AbstractTransformerWithContext,), transformer_ctx_ns)(), context)
        if r != "TC:" + target_cls.name:
            fail("dispatch:transform_with_context-does-not-return-the-result-of-the-method", "%s: %r", target_cls.name, r)
        expect_log("transform_with_context", context)
        # the generic entry points of visitors / transformers dispatch, too
        types.AbstractVisitor.visit(type("V2", (types.AbstractVisitor,), visitor_ns)(), target)
        expect_log("visitor.visit", None)
        r = types.AbstractTransformer.transform(type("T2", (types.AbstractTransformer,), transformer_ns)(), target)
        expect_log("transformer.transform", None)

    # ---- the pass-through visitor reaches every nested instance exactly once, in pre-order
    seen: List[Any] = []

    class Counting(types.PassThroughVisitor):  # type: ignore
        def visit(self, that: Any) -> None:
            seen.append(that)
            types.PassThroughVisitor.visit(self, that)

    Counting().visit(instance)
    if not _same_objects(seen, [instance] + want_all):
        fail("visitor:pass-through-visitor-does-not-visit-every-nested-instance-once", "%s: %r", cls_name,
             [type(x).__name__ for x in seen])

    # ---- accessors
    for target in [instance] + want_all:
        target_cls = ir_class_of(sdk, target)
        for prop in target_cls.properties:
            ta = prop.type_annotation
            name = python_naming.property_name(prop.name)
            value = getattr(target, name)
            if isinstance(ta, intermediate.OptionalTypeAnnotation) and isinstance(ta.value, intermediate.ListTypeAnnotation):
                getter = getattr(target, f"over_{name}_or_empty", None)
                if getter is None:
                    fail("accessor:over_X_or_empty-is-missing", "%s.%s", target_cls.name, name)
                got = list(getter())
                want = [] if value is None else list(value)
                if not (len(got) == len(want) and all(g is w or g == w for g, w in zip(got, want))):
                    fail("accessor:over_X_or_empty-differs-from-the-property", "%s.%s: %r vs %r", target_cls.name, name, got, want)
            default_getter = getattr(target, f"{name}_or_default", None)
            if default_getter is not None:
                got = default_getter()
                if value is not None and not (got is value or got == value):
                    fail("accessor:X_or_default-differs-from-the-set-value", "%s.%s", target_cls.name, name)
                if value is None and got is None:
                    fail("accessor:X_or_default-returns-None", "%s.%s", target_cls.name, name)
    return f"nested={len(want_all)}"


def make_harness(params: Dict[str, Any]):
    model = params["model"]
    c08.sdk_of(model)

    def harness(s0: str, s1: str, s2: str, s3: str, s4: str, s5: str, i0: int, i1: int, i2: int, i3: int, i4: int,
                i5: int, i6: int, i7: int, b0: bool, b1: bool, b2: bool, b3: bool, b4: bool, b5: bool, b6: bool,
                b7: bool) -> Any:
        # the VALUES of strings are irrelevant for traversal: they are pinned to the empty string
        for s in (s0, s1, s2, s3, s4, s5):
            assume(len(s) == 0)
        pool = Pool([s0, s1, s2, s3, s4, s5] * 4, [i0, i1, i2, i3, i4, i5, i6, i7], [b0, b1, b2, b3, b4, b5, b6, b7], 0)
        pool.structure_only = True
        return check(model, params["name"], pool, params["depth"], params["list_len"], params.get("focus"))

    return harness


def _shaped_properties(model: str, name: str) -> List[str]:
    """Properties whose value has a shape (optional and / or list)."""
    from aas_core_codegen import intermediate
    st = c08._TABLES[model]
    cls = st.must_find_class(name)
    return [p.name for p in cls.properties
            if isinstance(p.type_annotation, (intermediate.OptionalTypeAnnotation, intermediate.ListTypeAnnotation))]


def shards(tier: str) -> List[Dict[str, Any]]:
    out = []
    for model in c08.MODELS:
        if model.startswith(("may-reject:", "verification-only:")) or not c08.MODELS[model].exists():
            continue
        seen = set()
        for kind, name, focus in c08._targets(model):
            if kind != "class" or name in seen:
                continue
            seen.add(name)
            variants = [(2, False, None)]
            if c08._has_polymorphic_list(model, name, None):
                variants = [(1, False, None), (2, True, None)]
            shaped = _shaped_properties(model, name)
            if len(shaped) > 4:
                # many optional / list properties multiply the shapes: one property at a time is claimed exhaustively
                # (the others stay at their default), all together are explored under a budget
                variants = [(2, False, [prop]) for prop in shaped] + [(1, True, None)]
            for ll, exploratory, focus in variants:
                out.append({"name": f"{model}:{name}" + (f":focus={focus[0]}" if focus else "") +
                                    (f":lists<={ll}" if len(variants) > 1 and not focus else ""),
                            "params": {"model": model, "name": name, "depth": 2 if tier == "quick" else 3, "list_len": ll,
                                       "focus": focus},
                            "budget_s": (60 if exploratory else 200) if tier == "quick" else 1500,
                            **({"exploratory": True} if exploratory else {}), "per_path_timeout": 60})
    return out


def describe(tier: str) -> Dict[str, Any]:
    return {
        "functions": ["aas_core_codegen.python.lib._generate_types.generate",
                      "aas_core_codegen.python.lib._generate_types._generate_descend_once_method",
                      "aas_core_codegen.python.lib._generate_types._generate_descend_method"],
        "bounds": "corpus as C08; per concrete class an instance graph whose SHAPE is symbolic: which optional children are present, list "
                  "lengths 0..2, the concrete class chosen for every abstract slot, nesting depth 2 (thorough 3; lists inside nested "
                  "instances <= 1); primitive values and enumeration literals are pinned (irrelevant for traversal)",
        "outside": "models outside the corpus; X_or_default accessors exist only if the generator emits them for the corpus (none does: "
                   "the clause is then vacuous and said so in the labels)",
        "stubs": [],
        "assumptions": ["expected order is derived from the intermediate representation: properties in declaration order (inherited "
                        "first), list items in order, pre-order for descend",
                        "the solver mostly enumerates a finite family of shapes here (stated honestly)"],
        "rule": "one shard per (model, concrete class)",
    }
