"""C12 -- the generated JSON Schema enforces every inferred constraint (machinery shared with C11)."""
from __future__ import annotations

import json
from typing import Any, Dict, List

from aas_core_codegen import naming

from vf.common import assume, fail
from vf.oracles import jsonschema_mini
from vf.sdk import Pool
import harness.C08 as c08
import harness.C11 as c11

PROPERTY = "C12"
LEVEL = "translation_validation"


def check_structure(model: str, cls_name: str, pool: Pool, key_index: Any, kind: Any) -> str:
    """A wrong or missing modelType, a missing required property or a mistyped value must be rejected."""
    sdk = c08.sdk_of(model)
    schema, _ = c11.schema_of(model)
    cls = sdk.symbol_table.must_find_class(cls_name)
    pool.structure_only = True
    instance, _src = sdk.build(cls, pool, 2, 1)
    pool.finish()
    assume(not pool.exhausted)
    document = sdk.jsonization.to_jsonable(instance)
    definition = naming.json_model_type(cls.name)
    ref = {"$ref": f"#/definitions/{definition}"}
    if not jsonschema_mini.accepts(schema, ref, document):
        assume(False)  # only mutations of VALID documents are considered
    keys = list(document.keys())
    required = [naming.json_property(p.name) for p in cls.properties
                if not hasattr(p.type_annotation, "value") or type(p.type_annotation).__name__ != "OptionalTypeAnnotation"]
    assume(0 <= key_index < len(keys))
    assume(0 <= kind <= 2)
    label = "?"
    for k, key in enumerate(keys):
        if key_index != k:
            continue
        if kind == 0:
            # mistyped value: a JSON value of another type than the present one
            value = document[key]
            document[key] = 1.5 if isinstance(value, (str, list, dict, bool)) else "text"
            label = "mistyped:" + key
        elif kind == 1:
            if key != "modelType" and key not in required:
                assume(False)  # dropping an optional property keeps the document valid
            del document[key]
            label = "missing:" + key
        else:
            if key != "modelType":
                assume(False)
            document[key] = "NoSuchModelType"
            label = "wrong-modelType"
    if jsonschema_mini.accepts(schema, ref, document):
        fail("schema:accepts-a-structurally-broken-document:" + label.split(":")[0], "%s: %s -> %r", cls_name, label,
             lambda: json.dumps(document, default=repr))
    return label.split(":")[0]


def make_harness(params: Dict[str, Any]):
    if params.get("kind") == "structure":
        model = params["model"]
        c08.sdk_of(model)
        c11.schema_of(model)

        def harness(i0: int, i1: int, i2: int, i3: int, i4: int, i5: int, i6: int, i7: int, b0: bool, b1: bool, b2: bool,
                    b3: bool, b4: bool, b5: bool, key_index: int, kind: int) -> Any:
            pool = Pool([], [i0, i1, i2, i3, i4, i5, i6, i7], [b0, b1, b2, b3, b4, b5], 0)
            return check_structure(model, params["name"], pool, key_index, kind)

        return harness
    return c11.make_harness(params, direction="enforces-inferred")


# classes without a valid document among those with pinned primitive values (the structure shards mutate VALID documents)
STRUCTURE_NOT_APPLICABLE = {("basic", "Empty_only"): "the pinned string value has one character; the class admits only the empty string"}


def shards(tier: str) -> List[Dict[str, Any]]:
    out = c11.shards(tier)
    for model in c08.MODELS:
        if model.startswith(c08.NOT_FOR_SERIALIZATION) or not c08.MODELS[model].exists():
            continue
        if model == "bytes":
            continue  # its valid documents are already rejected (open C11 finding on byte-array lengths): nothing to mutate
        seen = set()
        for kind, name, focus in c08._targets(model):
            if kind != "class" or name in seen:
                continue
            seen.add(name)
            if (model, name) in STRUCTURE_NOT_APPLICABLE:
                continue
            out.append({"name": f"structure:{model}:{name}", "params": {"kind": "structure", "model": model, "name": name},
                        "budget_s": 120 if tier == "quick" else 900, "per_path_timeout": 60,
                        # eight optional / list properties: the shapes of the valid document multiply; explored under a budget
                        **({"exploratory": True} if (model, name) == ("shapes", "Shapes") else {})})
    return out


def describe(tier: str) -> Dict[str, Any]:
    d = c11.describe(tier)
    d["bounds"] += ("; direction here: a document whose value breaks an INFERRED length / pattern / list-size constraint (as returned by the "
                    "real infer_constraints_by_class for the instance's class: own, inherited, in-lined constrained primitives) must be "
                    "rejected; plus structural mutations of valid documents (mistyped value, missing required property / modelType, "
                    "unknown modelType) at a symbolic position")
    d["outside"] += ("; by design of the property: tightenings a descendant applies to the ITEMS of an inherited list, and byte-array "
                     "lengths")
    return d
