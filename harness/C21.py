"""C21 -- distinct meta-model names never collide in generated code (or the target reports the collision)."""
from __future__ import annotations

import importlib
import inspect
import itertools
from typing import Any, Callable, Dict, List, Optional, Tuple

from aas_core_codegen import naming, specific_implementations
from aas_core_codegen.common import Identifier, Stripped

from vf.common import Violation, assume, fail, symbolic

from vf.models import XSD_ROOT_ELEMENT

PROPERTY = "C21"
LEVEL = "model_checking"

LANGS = ["python", "csharp", "typescript", "java", "golang", "cpp"]

# role -> per target the naming function(s) which give the generated name(s) of an entity of that role in ITS scope
ROLE_FUNCTIONS: Dict[str, Dict[str, List[str]]] = {
    "class": {"python": ["class_name"], "csharp": ["class_name", "interface_name"], "typescript": ["class_name", "interface_name"],
              "java": ["class_name", "interface_name"], "golang": ["struct_name", "interface_name"],
              "cpp": ["class_name", "interface_name"]},
    "enum": {t: ["enum_name"] for t in LANGS},
    "property": {"python": ["property_name"], "csharp": ["property_name"], "typescript": ["property_name"],
                 "java": ["property_name", "getter_name", "setter_name"], "golang": ["getter_name", "setter_name"],
                 "cpp": ["getter_name", "mutable_getter_name", "setter_name"]},
    "literal": {t: ["enum_literal_name"] for t in LANGS},
}
GENERIC = {"jsonschema": {"class": [naming.json_model_type], "property": [naming.json_property]},
           "xsd": {"class": [naming.xml_class_name], "property": [naming.xml_property]}}

_NAMING = {t: importlib.import_module(f"aas_core_codegen.{t}.naming") for t in LANGS}


def names_of(target: str, role: str, identifier: Any) -> List[Any]:
    if target in GENERIC:
        return [f(identifier) for f in GENERIC[target].get(role, [])]
    out = []
    for fn_name in ROLE_FUNCTIONS[role][target]:
        fn = getattr(_NAMING[target], fn_name)
        n_params = len(inspect.signature(fn).parameters)
        # some targets prefix the literal with the name of its enumeration
        out.append(fn(identifier) if n_params == 1 else fn(Identifier("Some_enum"), identifier))
    return out


# the two entities of a template and the scope they share
TEMPLATES: Dict[str, Tuple[str, str]] = {
    "two-properties": ("property", "property"),
    "inherited-and-own-property": ("property", "property"),
    "two-classes": ("class", "class"),
    "class-and-enum": ("class", "enum"),
    "two-literals": ("literal", "literal"),
}


def model_text(template: str, a: str, b: str) -> str:
    head = ('"""Meta-model for verification."""\nfrom enum import Enum\nfrom typing import List, Optional\n\n'
            'from icontract import invariant, DBC\n\n\n')
    tail = '\n\n__version__ = "V0"\n__xml_namespace__ = "https://example.invalid/verif"\n'
    if template == "two-properties":
        body = (f'class Something(DBC):\n    """Represent something."""\n\n    {a}: str\n    """First"""\n\n    {b}: str\n'
                f'    """Second"""\n\n    def __init__(self, {a}: str, {b}: str) -> None:\n        self.{a} = {a}\n'
                f'        self.{b} = {b}\n')
    elif template == "inherited-and-own-property":
        body = ('from aas_core_meta.marker import abstract, serialization\n\n\n'
                f'@abstract\n@serialization(with_model_type=True)\nclass Parent(DBC):\n    """Represent the parent."""\n\n    {a}: str\n'
                f'    """First"""\n\n    def __init__(self, {a}: str) -> None:\n        self.{a} = {a}\n\n\n'
                f'class Something(Parent):\n    """Represent something."""\n\n    {b}: str\n    """Second"""\n\n'
                f'    def __init__(self, {a}: str, {b}: str) -> None:\n        Parent.__init__(self, {a})\n\n        self.{b} = {b}\n')
    elif template == "two-classes":
        # the two classes have the same shape on purpose (a generator must not fold them into one definition)
        body = (f'class {a}(DBC):\n    """Represent the first."""\n\n    value: str\n    """Value"""\n\n    def __init__(self, value: str) -> None:\n'
                f'        self.value = value\n\n\nclass {b}(DBC):\n    """Represent the first."""\n\n    value: str\n    """Value"""\n\n'
                f'    def __init__(self, value: str) -> None:\n        self.value = value\n')
    elif template == "class-and-enum":
        body = (f'class {b}(Enum):\n    """Represent the enumeration."""\n\n    Some_literal = "SOME"\n\n\n'
                f'class {a}(DBC):\n    """Represent the class."""\n\n    x: {b}\n    """X"""\n\n    def __init__(self, x: {b}) -> None:\n'
                f'        self.x = x\n')
    elif template == "two-literals":
        body = (f'class Some_enum(Enum):\n    """Represent the enumeration."""\n\n    {a} = "A"\n    {b} = "B"\n\n\n'
                f'class Something(DBC):\n    """Represent something."""\n\n    x: Some_enum\n    """X"""\n\n'
                f'    def __init__(self, x: Some_enum) -> None:\n        self.x = x\n')
    else:
        raise AssertionError(template)
    return head + body + tail


_SNIPPETS = {"jsonschema": {specific_implementations.ImplementationKey("schema_base.json"):
                            Stripped('{"$schema": "https://json-schema.org/draft/2019-09/schema", "title": "T", "type": "object"}')},
             "xsd": {specific_implementations.ImplementationKey("root_element.xml"):
                     Stripped(XSD_ROOT_ELEMENT)}}


def target_reports_an_error(target: str, symbol_table: Any) -> Tuple[bool, str]:
    if target in LANGS:
        lib = importlib.import_module(f"aas_core_codegen.{target}.lib")
        verified, errors = lib.verify_for_types(symbol_table)
        return errors is not None, "verify_for_types"
    if target == "jsonschema":
        from aas_core_codegen.jsonschema import main as jm
        code, errors = jm.generate(symbol_table=symbol_table, spec_impls=_SNIPPETS["jsonschema"], fix_pattern=jm.fix_pattern_for_utf16)
        return errors is not None, "jsonschema.generate"
    from aas_core_codegen.xsd import main as xm
    code, errors = xm._generate(symbol_table=symbol_table, spec_impls=_SNIPPETS["xsd"])
    return errors is not None, "xsd._generate"


def concrete_check(template: str, a: str, b: str) -> str:
    """The real front end and the real target verification on a model with the two names."""
    from vf.models import front_end
    role_a, role_b = TEMPLATES[template]
    st, err, _ = front_end(model_text(template, a, b))
    if st is None:
        return "front-end-rejects"
    outcome = "no-collision"
    silent: List[str] = []
    details: List[str] = []
    for target in LANGS + list(GENERIC):
        na, nb = names_of(target, role_a, Identifier(a)), names_of(target, role_b, Identifier(b))
        if target in LANGS and role_a == "property" and role_b == "property":
            # getters / setters / properties of the two entities share the scope of the class
            colliding = sorted(set(map(str, na)) & set(map(str, nb)))
        else:
            colliding = sorted(set(map(str, na)) & set(map(str, nb)))
        if not colliding:
            continue
        outcome = "collision-reported"
        try:
            reported, where = target_reports_an_error(target, st)
        except Exception as e:  # noqa
            fail(f"collision:{target}:raises-instead-of-reporting:{template}", "%r / %r -> %r: %r", a, b, colliding, e)
        if not reported:
            silent.append(target)
            details.append(f"{target}: both become {colliding!r}, {where} reports no error")
    if silent:
        # the key names the scope and the exact set of silent targets: another target turning silent is a NEW violation
        fail(f"collision:not-reported:{template}:{'+'.join(silent)}", "meta-model names %r and %r: %s", a, b, "; ".join(details))
    return outcome


_COUNTER = [0]


def check(template: str, a: Any, b: Any, targets: Optional[List[str]] = None) -> str:
    if not symbolic():
        return concrete_check(template, a, b)
    role_a, role_b = TEMPLATES[template]
    collides: Any = False
    import icontract
    try:
        for target in (targets or LANGS + list(GENERIC)):
            for x in names_of(target, role_a, a):
                for y in names_of(target, role_b, b):
                    if x == y:
                        collides = True
    except icontract.ViolationError:
        # A pre-condition of a naming function (Identifier: a regular expression, which CrossHair only approximates on a
        # symbolic string) failed on this path.  Like a collision this is only a nomination: the concrete replay runs the
        # real generators on the witness, where a real contract violation surfaces as an exception (= a violation).
        _COUNTER[0] += 1
        raise Violation(f"candidate:{template}:{_COUNTER[0]}", "")
    if collides:
        # a candidate: the runner replays the witness concretely (front end + every target's verification)
        _COUNTER[0] += 1
        raise Violation(f"candidate:{template}:{_COUNTER[0]}", "")
    return "distinct-names"


ALPHABET = "aA_1"


def make_harness(params: Dict[str, Any]):
    template = params["template"]
    la, lb = params["len_a"], params["len_b"]
    # warm-up (icontract in the naming functions)
    for t in LANGS + list(GENERIC):
        for role in set(TEMPLATES[template]):
            names_of(t, role, Identifier("Some_name"))

    def harness(a: str, b: str) -> Any:
        assume(len(a) == la and len(b) == lb)
        from vf.sym import codepoints
        for s, role in zip((a, b), TEMPLATES[template]):
            cps = codepoints(s)
            ok: Any = True
            for i, c in enumerate(cps):
                in_alphabet = (c == 97) | (c == 98) | (c == 65) | (c == 66) | (c == 95) | (c == 49)
                ok = ok & in_alphabet
                if i + 1 < len(cps):
                    ok = ok & ~((c == 95) & (cps[i + 1] == 95))  # no double underscore
            # an identifier of the meta-model language: classes, enumerations and literals start with a capital letter,
            # properties with a small one (front-end rules which the naming functions state as preconditions); no
            # trailing underscore
            if role == "property":
                ok = ok & ((cps[0] == 97) | (cps[0] == 98))
            else:
                ok = ok & ((cps[0] == 65) | (cps[0] == 66))
            ok = ok & (cps[-1] != 95)
            assume(ok)
        assume(a != b)
        return check(template, a, b, params.get("targets"))

    return harness


def shards(tier: str) -> List[Dict[str, Any]]:
    out = []
    top = 3 if tier == "quick" else 4
    for template in TEMPLATES:
        for target in LANGS + list(GENERIC):
            if target in GENERIC and not all(r in GENERIC[target] for r in TEMPLATES[template]):
                continue  # the schema targets have no names for enumerations / literals
            for la, lb in itertools.product(range(1, top + 1), repeat=2):
                if la > lb or (tier == "quick" and (la + lb > 4 or lb > 2)):
                    continue  # quick: 1/1, 1/2, 2/2 (2/2 holds every kind of collision found so far); the rest is thorough
                deep = la + lb >= 7
                out.append({"name": f"{template},{target},len={la}/{lb}",
                            "params": {"template": template, "len_a": la, "len_b": lb, "targets": [target]},
                            "budget_s": 150 if tier == "quick" else (600 if deep else 1200), "per_path_timeout": 60,
                            **({"exploratory": True} if deep else {})})
    return out


def describe(tier: str) -> Dict[str, Any]:
    return {
        "functions": [f"aas_core_codegen.{t}.naming" for t in LANGS] + ["aas_core_codegen.naming.json_model_type",
                      "aas_core_codegen.naming.json_property", "aas_core_codegen.naming.xml_class_name",
                      "aas_core_codegen.naming.xml_property"] + [f"aas_core_codegen.{t}.lib._generate_types.verify" for t in LANGS] + [
                      "aas_core_codegen.jsonschema.main.generate", "aas_core_codegen.xsd.main._generate"],
        "bounds": "two different identifiers a, b of 1..2 characters (thorough 1..4 each; pairs of 7 or 8 characters in total are exploratory) over {a, b, A, B, _, 1} (identifier shape of the "
                  "meta-model language) in five scopes: two properties of a class, an inherited and an own property, two classes (of identical shape), a class and an enumeration, two literals "
                  "of an enumeration. Symbolic part: every naming function of the eight targets is executed on the symbolic pair; each "
                  "path on which two generated names coincide yields a witness. Concrete part: the witness becomes a meta-model; if the "
                  "real front end accepts it, every target whose names coincide must report an error from its verification / generation",
        "outside": "longer identifiers and other alphabets; methods, constants and verification functions; names the generators "
                   "invent themselves (helper methods, reserved words)",
        "stubs": [],
        "assumptions": ["one witness per path class of the naming functions (not every member of the class) reaches the generators"],
        "rule": "one shard per scope, target (whose naming functions are executed symbolically) and pair of identifier lengths; candidates = paths with coinciding names, each replayed concretely",
    }
