"""C03 -- exit status and error-report contract (main.py, run.py, common.py and the <target>/main.py drivers)."""
from __future__ import annotations

import importlib
import io
import pathlib
from typing import Any, Dict, List, Optional, Tuple

from aas_core_codegen import run, specific_implementations
from aas_core_codegen.common import Error, LinenoColumner

from vf.common import REPO, assume, fail, symbolic
from vf.stubs import Anything, LibProxy, OutFs, OutPath, Sink, Steps
from vf.sym import codepoints

PROPERTY = "C03"
LEVEL = "model_checking"

LANG_TARGETS = ["cpp", "csharp", "golang", "java", "python", "typescript"]
SCHEMA_TARGETS = ["jsonschema", "xsd"]

_WS = (9, 10, 11, 12, 13, 28, 29, 30, 31, 32, 133, 160, 0x1680, 0x2028, 0x2029, 0x202F, 0x205F, 0x3000)
_BREAKS = (11, 12, 13, 28, 29, 30, 133, 0x2028, 0x2029)  # str.splitlines() separators other than "\n"


def _is_ws(c: Any) -> Any:
    r: Any = (c >= 0x2000) & (c <= 0x200A)
    for w in _WS:
        r = r | (c == w)
    return r


def admissible_message(m: Any, n: int) -> List[Any]:
    """Assumptions on an error message of exactly ``n`` code points; returns its code points."""
    assume(len(m) == n)
    cps = codepoints(m)
    ok: Any = True
    for i, c in enumerate(cps):
        for b in _BREAKS:
            ok = ok & (c != b)
        # no whitespace-only line: the first character and every character after "\n" is not whitespace
        if i == 0:
            ok = ok & ~_is_ws(c) & (c != 42)
        else:
            ok = ok & ((cps[i - 1] != 10) | ~_is_ws(c))
    ok = ok & (cps[-1] != 10)
    assume(ok)
    return cps


def _indent_continuations(cps: List[Any], by: int) -> List[Any]:
    out: List[Any] = []
    for c in cps:
        out.append(c)
        if c == 10:  # forks once per character of the message: "\n" or not
            out.extend([32] * by)
    return out


def expected_entries(messages: List[List[Any]], nested: bool) -> List[Any]:
    """Code points of the bullet block which the report format prescribes for the injected errors."""
    out: List[Any] = []
    if nested and len(messages) >= 2:
        out.extend([42, 32])
        out.extend(_indent_continuations(messages[0], 2))
        for m in messages[1:]:
            out.extend([10, 32, 32, 32, 32])
            out.extend(_indent_continuations(m, 4))
        out.append(10)
        return out
    for m in messages:
        out.extend([42, 32])
        out.extend(_indent_continuations(m, 2))
        out.append(10)
    return out


def check_report(stderr: Sink, messages: List[List[Any]], nested: bool, where: str) -> None:
    """stderr == headline ':' newline + exactly the expected entries."""
    s = codepoints(stderr.value())
    exp = expected_entries(messages, nested)
    if len(s) < len(exp) + 3:
        fail("report:too-short-to-hold-every-injected-error:" + where, "stderr=%r", lambda: stderr.value())
    head, tail = s[: len(s) - len(exp)], s[len(s) - len(exp):]
    same: Any = True
    for a, b in zip(tail, exp):
        same = same & (a == b)
    if not same:
        fail("report:entries-differ-from-the-injected-errors:" + where, "stderr=%r", lambda: stderr.value())
    if not (head[-1] == 10 and head[-2] == 58):
        fail("report:headline-does-not-end-with-colon-newline:" + where, "stderr=%r", lambda: stderr.value())
    # the headline holds no bullet of its own
    bullet: Any = (head[0] == 42)
    for i in range(1, len(head) - 1):
        bullet = bullet | ((head[i - 1] == 10) & (head[i] == 42) & (head[i + 1] == 32))
    if bullet:
        fail("report:bullet-inside-the-headline:" + where, "stderr=%r", lambda: stderr.value())


def check_one_liner(stderr: Sink, where: str) -> None:
    s = codepoints(stderr.value())
    if len(s) < 2:
        fail("report:empty-stderr-on-failure:" + where)
    if s[-1] != 10:
        fail("report:message-without-trailing-newline:" + where, "stderr=%r", lambda: stderr.value())


def check_success(rc: Any, stdout: Sink, stderr: Sink, out_text: str, where: str) -> None:
    if rc != 0:
        fail("exit:non-zero-although-nothing-failed:" + where, "rc=%r stderr=%r", rc, lambda: stderr.value())
    if not stderr.empty():
        fail("exit:zero-with-output-on-stderr:" + where, "stderr=%r", lambda: stderr.value())
    want = f"Code generated to: {out_text}\n"
    got = stdout.value()
    if not got.endswith(want):
        fail("exit:zero-without-the-closing-line-on-stdout:" + where, "stdout=%r", got)


# ------------------------------------------------------------------------------------------------- snippets
_SNIPPETS: Dict[str, Any] = {}


def real_snippets(target: str) -> Dict[str, str]:
    if target not in _SNIPPETS:
        base = REPO / "dev" / "test_data" / "main" / target / "expected"
        found: Dict[str, str] = {}
        for case in sorted(p for p in base.iterdir() if p.is_dir()):
            d = case / "input" / "snippets"
            if d.exists():
                mapping, errors = specific_implementations.read_from_directory(d)
                assert errors is None, errors
                found = dict(mapping)
                break
        _SNIPPETS[target] = found
    return _SNIPPETS[target]


class SnippetMap:
    """spec_impls whose k-th lookup (symbolic k) finds nothing / finds an unusable text."""

    def __init__(self, real: Dict[str, str], bad_lookup: Any, bad_kind: Any) -> None:
        self.real = real
        self.bad_lookup = bad_lookup
        self.bad_kind = bad_kind
        self.lookups: List[str] = []
        self.injected: Optional[Tuple[str, str]] = None

    def get(self, key: Any, default: Any = None) -> Any:
        idx = len(self.lookups)
        self.lookups.append(str(key))
        if self.injected is None and idx == self.bad_lookup:
            if self.bad_kind:
                self.injected = (str(key), "unusable")
                return "$ not % usable {"
            self.injected = (str(key), "missing")
            return default
        return self.real.get(str(key), "Dummy")

    def __getitem__(self, key: Any) -> Any:
        return self.real.get(str(key), "Dummy")

    def __contains__(self, key: Any) -> bool:
        return True

    def __iter__(self) -> Any:
        return iter(self.real)

    def __len__(self) -> int:
        return len(self.real)


class _Atok:
    tree = None

    def get_text(self, node: Any) -> str:
        return "x = 1\n"

    def get_text_range(self, node: Any) -> Tuple[int, int]:
        return (0, 1)


def _context(fs: OutFs, spec_impls: Any) -> run.Context:
    fs.kinds["/in/meta_model.py"] = "file"
    fs.kinds["/out"] = "dir"
    return run.Context(model_path=OutPath(fs, "/in/meta_model.py"), symbol_table=Anything(),  # type: ignore
                       spec_impls=spec_impls, lineno_columner=LinenoColumner(atok=_Atok()),  # type: ignore
                       output_dir=OutPath(fs, "/out"))  # type: ignore


# ------------------------------------------------------------------------------------------------- target drivers
def run_target(target: str, fail_at: Any, fail_write_at: Any, bad_lookup: Any, bad_kind: Any, msgs: List[Any],
               nested: bool, value_error: Any = False) -> Tuple[Any, Sink, Sink, Steps, OutFs, SnippetMap]:
    mod = importlib.import_module(f"aas_core_codegen.{target}.main")
    steps = Steps(fail_at, msgs, nested)
    saved: Dict[str, Any] = {}
    try:
        if target in LANG_TARGETS:
            for name in (f"{target}_lib", f"{target}_tests", "intermediate"):
                if hasattr(mod, name):
                    saved[name] = getattr(mod, name)
                    setattr(mod, name, LibProxy(saved[name], steps))
        else:
            gen_name = "generate" if target == "jsonschema" else "_generate"
            saved[gen_name] = getattr(mod, gen_name)

            def gen_stub(*args: Any, **kwargs: Any) -> Any:
                if steps.fails_now(f"{target}.{gen_name}"):
                    return None, steps.errors()
                return "code\n", None

            setattr(mod, gen_name, gen_stub)
        fs = OutFs(fail_write_at, fail_with_value_error=value_error)
        snippets = SnippetMap(real_snippets(target), bad_lookup, bad_kind)
        context = _context(fs, snippets)
        stdout, stderr = Sink(), Sink()
        rc = mod.execute(context=context, stdout=stdout, stderr=stderr)
        return rc, stdout, stderr, steps, fs, snippets
    finally:
        for name, value in saved.items():
            setattr(mod, name, value)


_DRY: Dict[str, Tuple[int, int, int]] = {}


def dry_run(target: str) -> Tuple[int, int, int]:
    """(number of fallible stubbed calls, number of mkdir/write operations, number of snippet lookups) of a clean run."""
    if target not in _DRY:
        rc, stdout, stderr, steps, fs, snippets = run_target(target, -1, -1, -1, False, ["unused"], False)
        assert rc == 0 and stderr.empty(), (target, rc, stderr.value())
        _DRY[target] = (len(steps.calls), len(fs.ops), len(snippets.lookups))
    return _DRY[target]


def check_target(target: str, fail_at: Any, fail_write_at: Any, bad_lookup: Any, bad_kind: Any, raw_msgs: List[Any],
                 lens: List[int], nested: bool, value_error: Any = False) -> str:
    n_calls, n_ops, n_lookups = dry_run(target)
    assume(-1 <= fail_at < n_calls)
    assume(-1 <= fail_write_at < n_ops)
    assume(-1 <= bad_lookup < n_lookups)
    # at most one kind of failure is injected per run (their product adds nothing: the first one ends the run)
    assume((fail_at == -1) | (fail_write_at == -1))
    assume((fail_at == -1) | (bad_lookup == -1))
    assume((fail_write_at == -1) | (bad_lookup == -1))
    msg_cps = [admissible_message(m, n) for m, n in zip(raw_msgs, lens)]
    rc, stdout, stderr, steps, fs, snippets = run_target(target, fail_at, fail_write_at, bad_lookup, bad_kind,
                                                         raw_msgs, nested, value_error)
    if not isinstance(rc, int):
        fail("exit:status-is-not-an-integer:" + target)
    if steps.injected is not None:
        where = f"{target}:{steps.injected[0]}"
        if rc == 0:
            fail("exit:zero-although-a-step-reported-errors:" + where, "stderr=%r", lambda: stderr.value())
        check_report(stderr, msg_cps, nested and not steps.injected_as_plain_strings and len(msg_cps) >= 2, where)
        return "step-failed"
    if fs.failed is not None:
        where = f"{target}:{fs.failed[0]}"
        if rc == 0:
            fail("exit:zero-although-writing-failed:" + where, "op=%r", fs.failed)
        s = stderr.value()
        if stderr.empty():
            fail("report:empty-stderr-on-failure:" + where)
        if "No space left on device" not in s:
            fail("report:the-operating-system-error-is-dropped:" + where, "stderr=%r", s)
        if not s.endswith("\n"):
            fail("report:message-without-trailing-newline:" + where, "stderr=%r", s)
        return "write-failed"
    if snippets.injected is not None:
        where = f"{target}:snippet-{snippets.injected[1]}"
        if rc == 0 and snippets.injected[1] == "unusable":
            # not every target restricts the text of its snippets; then the run must be an ordinary success
            check_success(rc, stdout, stderr, "/out", target)
            return "snippet-unusable-but-accepted"
        if rc == 0:
            fail("exit:zero-although-a-required-snippet-is-missing:" + target, "key=%r", snippets.injected[0])
        s = stderr.value()
        if stderr.empty():
            fail("report:empty-stderr-on-failure:" + where)
        if snippets.injected[0] not in s:
            fail("report:the-snippet-is-not-named:" + where, "stderr=%r", s)
        if not s.endswith("\n"):
            fail("report:message-without-trailing-newline:" + where, "stderr=%r", s)
        return "snippet-" + snippets.injected[1]
    check_success(rc, stdout, stderr, "/out", target)
    return "success"


# ------------------------------------------------------------------------------------------------- run.load_model
class _StrSink(Sink):
    """A sink which is pre-loaded with an already rendered message."""

    def __init__(self, text: Any) -> None:
        Sink.__init__(self)
        self.pieces.append(text)


def run_load_model(fail_at: Any, syntax_error: Any, msgs: List[Any], nested: bool) -> Tuple[Any, Steps]:
    steps = Steps(fail_at, msgs, nested)
    steps.syntax_error = syntax_error
    saved = {"parse": run.parse, "intermediate": run.intermediate}
    try:
        run.parse = LibProxy(saved["parse"], steps)  # type: ignore
        run.intermediate = LibProxy(saved["intermediate"], steps)  # type: ignore
        fs = OutFs()
        fs.kinds["/in/meta_model.py"] = "file"
        fs.contents["/in/meta_model.py"] = "x = 1\n"
        result = run.load_model(model_path=OutPath(fs, "/in/meta_model.py"), cache_model=False)  # type: ignore
        return result, steps
    finally:
        run.parse = saved["parse"]  # type: ignore
        run.intermediate = saved["intermediate"]  # type: ignore


_DRY_LOAD: List[int] = []


def check_load_model(fail_at: Any, syntax_error: Any, raw_msgs: List[Any], lens: List[int], nested: bool) -> str:
    if not _DRY_LOAD:
        (ok, err), steps = run_load_model(-1, False, ["unused"], False)
        assert ok is not None and err is None
        _DRY_LOAD.append(len(steps.calls))
    assume(-1 <= fail_at < _DRY_LOAD[0])
    msg_cps = [admissible_message(m, n) for m, n in zip(raw_msgs, lens)]
    (ok, err), steps = run_load_model(fail_at, syntax_error, raw_msgs, nested)
    if (ok is None) == (err is None):
        fail("load_model:not-exactly-one-of-result-and-error")
    if steps.injected is None:
        if err is not None:
            fail("load_model:error-although-no-step-failed", "%r", err)
        return "loaded"
    where = "load_model:" + steps.injected[0]
    if err is None:
        fail("load_model:result-although-a-step-reported-errors:" + where)
    if steps.injected_as_exception:
        if len(err) == 0 or not err.endswith("\n"):
            fail("report:message-without-trailing-newline:" + where, "%r", err)
        if syntax_error:
            if "line 3" not in err:
                fail("report:the-line-of-the-syntax-error-is-dropped:" + where, "%r", err)
        else:
            from vf.sym import contains
            if not contains(err, raw_msgs[0]):
                fail("report:the-parse-exception-is-dropped:" + where, "%r", err)
        return "parse-exception"
    used = msg_cps[: len(steps.injected[1])]
    check_report(_StrSink(err), used, nested and not steps.injected_as_plain_strings and len(used) >= 2, where)
    return "step-failed"


# ------------------------------------------------------------------------------------------------- smoke.main.execute
def run_smoke(fail_at: Any, syntax_error: Any, msgs: List[Any], nested: bool) -> Tuple[Any, Sink, Steps]:
    import aas_core_codegen.smoke.main as smoke_main
    steps = Steps(fail_at, msgs, nested)
    steps.syntax_error = syntax_error
    names = ["parse", "intermediate", "infer_for_schema", "csharp_lib"]
    saved = {n: getattr(smoke_main, n) for n in names}
    try:
        for n in names:
            setattr(smoke_main, n, LibProxy(saved[n], steps))
        fs = OutFs()
        fs.kinds["/in/meta_model.py"] = "file"
        fs.contents["/in/meta_model.py"] = "x = 1\n"
        stderr = Sink()
        rc = smoke_main.execute(model_path=OutPath(fs, "/in/meta_model.py"), stderr=stderr)  # type: ignore
        return rc, stderr, steps
    finally:
        for n in names:
            setattr(smoke_main, n, saved[n])


_DRY_SMOKE: List[int] = []


def check_smoke(fail_at: Any, syntax_error: Any, raw_msgs: List[Any], lens: List[int], nested: bool) -> str:
    if not _DRY_SMOKE:
        rc, stderr, steps = run_smoke(-1, False, ["unused"], False)
        assert rc == 0 and stderr.empty(), (rc, stderr.value())
        _DRY_SMOKE.append(len(steps.calls))
    assume(-1 <= fail_at < _DRY_SMOKE[0])
    msg_cps = [admissible_message(m, n) for m, n in zip(raw_msgs, lens)]
    rc, stderr, steps = run_smoke(fail_at, syntax_error, raw_msgs, nested)
    if steps.injected is None:
        if rc != 0:
            fail("smoke:non-zero-although-every-stage-succeeded", "stderr=%r", lambda: stderr.value())
        if not stderr.empty():
            fail("smoke:zero-with-output-on-stderr", "stderr=%r", lambda: stderr.value())
        return "passed"
    where = "smoke:" + steps.injected[0]
    if rc != 1:
        fail("smoke:exit-status-is-not-1-although-a-stage-failed:" + where, "rc=%r", rc)
    if steps.injected_as_exception:
        s = stderr.value()
        if len(s) == 0 or not s.endswith("\n"):
            fail("report:message-without-trailing-newline:" + where, "%r", s)
        if syntax_error:
            if "line 3" not in s:
                fail("report:the-line-of-the-syntax-error-is-dropped:" + where, "%r", s)
        else:
            from vf.sym import contains
            if not contains(s, raw_msgs[0]):
                fail("report:the-parse-exception-is-dropped:" + where, "%r", s)
        return "parse-exception"
    used = msg_cps[: len(steps.injected[1])]
    check_report(stderr, used, nested and not steps.injected_as_plain_strings and len(used) >= 2, where)
    return "stage-failed"


# ------------------------------------------------------------------------------------------------- main.execute
KINDS = ["missing", "file", "dir"]


def check_main(model_kind: Any, snippets_kind: Any, output_kind: Any, snippets_fail: Any, load_fails: Any,
               target_index: Any, target_rc: Any, raw_msgs: List[Any], lens: List[int]) -> str:
    import aas_core_codegen.main as main_mod
    assume(0 <= model_kind <= 2 and 0 <= snippets_kind <= 2 and 0 <= output_kind <= 2)
    targets = list(main_mod.Target)
    assume(0 <= target_index < len(targets))
    assume(0 <= target_rc <= 2)
    msg_cps = [admissible_message(m, n) for m, n in zip(raw_msgs, lens)]
    fs = OutFs()
    for text, kind in (("/in/meta_model.py", model_kind), ("/in/snippets", snippets_kind), ("/out", output_kind)):
        for k in range(1, 3):
            if kind == k:
                fs.kinds[text] = KINDS[k]
    calls: List[str] = []

    class SpecProxy:
        ImplementationKey = specific_implementations.ImplementationKey

        @staticmethod
        def read_from_directory(snippets_dir: Any) -> Any:
            calls.append("read_from_directory")
            if snippets_fail:
                return None, list(raw_msgs)
            return {}, None

    class RunProxy:
        Context = run.Context
        write_error_report = staticmethod(run.write_error_report)

        @staticmethod
        def load_model(model_path: Any, cache_model: bool = False) -> Any:
            calls.append("load_model")
            if load_fails:
                return None, "Failed to construct the symbol table:\n* " + raw_msgs[0] + "\n"
            return (Anything(), _Atok()), None

    def target_execute(context: Any, stdout: Any, stderr: Any) -> Any:
        calls.append("target")
        if target_rc != 0:
            stderr.write("Failed somehow:\n* " + raw_msgs[0] + "\n")
            return target_rc
        stdout.write(f"Code generated to: {context.output_dir}\n")
        return 0

    class TargetProxy:
        execute = staticmethod(target_execute)

    target_names = [n for n in vars(main_mod) if n.endswith("_main")]
    saved = {n: getattr(main_mod, n) for n in target_names + ["run", "specific_implementations"]}
    stdout, stderr = Sink(), Sink()
    try:
        for n in target_names:
            setattr(main_mod, n, TargetProxy)
        main_mod.run = RunProxy  # type: ignore
        main_mod.specific_implementations = SpecProxy  # type: ignore
        chosen = None
        for i, t in enumerate(targets):
            if target_index == i:
                chosen = t
        params = main_mod.Parameters(model_path=OutPath(fs, "/in/meta_model.py"), target=chosen,  # type: ignore
                                     snippets_dir=OutPath(fs, "/in/snippets"), output_dir=OutPath(fs, "/out"))  # type: ignore
        rc = main_mod.execute(params=params, stdout=stdout, stderr=stderr)
    finally:
        for n, v in saved.items():
            setattr(main_mod, n, v)

    def one_liner(what: str, path: str) -> str:
        s = stderr.value()
        if rc == 0:
            fail("exit:zero-although-" + what)
        if stderr.empty() or not s.endswith("\n") or path not in s:
            fail("report:bad-message-for-" + what, "stderr=%r", s)
        if calls:
            fail("exit:the-run-continues-after-" + what, "calls=%r", calls)
        return what

    if model_kind != 1:
        return one_liner("unusable-model-path", "/in/meta_model.py")
    if snippets_kind != 2:
        return one_liner("unusable-snippets-dir", "/in/snippets")
    if output_kind == 1:
        return one_liner("output-dir-is-a-file", "/out")
    if output_kind == 0 and ("mkdir", "/out") not in fs.ops:
        fail("main:missing-output-directory-is-not-created")
    if snippets_fail:
        if rc == 0:
            fail("exit:zero-although-the-snippets-failed-to-load")
        check_report(stderr, msg_cps, False, "main:read_from_directory")
        if calls != ["read_from_directory"]:
            fail("exit:the-run-continues-after-failed-snippets", "calls=%r", calls)
        return "snippets-failed"
    if load_fails:
        if rc == 0:
            fail("exit:zero-although-the-model-failed-to-load")
        check_report(stderr, msg_cps[:1], False, "main:load_model")
        if calls != ["read_from_directory", "load_model"]:
            fail("exit:the-run-continues-after-a-failed-model", "calls=%r", calls)
        return "model-failed"
    if calls != ["read_from_directory", "load_model", "target"]:
        fail("main:the-target-generator-is-not-dispatched-exactly-once", "calls=%r", calls)
    if rc != target_rc:
        fail("exit:status-of-the-target-generator-is-not-propagated", "rc=%r target=%r", rc, target_rc)
    if rc == 0:
        check_success(rc, stdout, stderr, "/out", "main")
        return "success"
    check_report(stderr, msg_cps[:1], False, "main:target")
    return "target-failed"


def make_harness(params: Dict[str, Any]):
    kind = params["kind"]
    if kind == "target":
        target = params["target"]
        lens = params["lens"]
        nested = params["nested"]
        dry_run(target)

        def harness(fail_at: int, fail_write_at: int, bad_lookup: int, bad_kind: bool, value_error: bool, m0: str, m1: str) -> Any:
            raw = [m0, m1][: len(lens)]
            if len(lens) < 2:
                assume(len(m1) == 0)
            if fail_write_at == -1:
                assume(not value_error)
            return check_target(target, fail_at, fail_write_at, bad_lookup, bad_kind, raw, lens, nested,
                                True if value_error else False)

        return harness
    lens = params["lens"]
    nested = params.get("nested", False)
    if kind in ("load_model", "smoke"):
        fn = check_load_model if kind == "load_model" else check_smoke

        def harness2(fail_at: int, syntax_error: bool, m0: str, m1: str) -> Any:
            raw = [m0, m1][: len(lens)]
            if len(lens) < 2:
                assume(len(m1) == 0)
            return fn(fail_at, syntax_error, raw, lens, nested)

        return harness2
    if kind == "main":
        def harness3(model_kind: int, snippets_kind: int, output_kind: int, snippets_fail: bool, load_fails: bool,
                     target_index: int, target_rc: int, m0: str, m1: str) -> Any:
            raw = [m0, m1][: len(lens)]
            if len(lens) < 2:
                assume(len(m1) == 0)
            return check_main(model_kind, snippets_kind, output_kind, snippets_fail, load_fails, target_index,
                              target_rc, raw, lens)

        return harness3
    raise AssertionError(kind)


def shards(tier: str) -> List[Dict[str, Any]]:
    out = []
    shapes = [([1], False), ([2], False), ([1, 1], False), ([1, 1], True)]
    if tier != "quick":
        shapes += [([3], False), ([2, 2], False), ([2, 2], True)]
    for target in LANG_TARGETS + SCHEMA_TARGETS:
        for lens, nested in shapes:
            out.append({"name": f"{target},messages={'/'.join(map(str, lens))}{',nested' if nested else ''}",
                        "params": {"kind": "target", "target": target, "lens": lens, "nested": nested},
                        "budget_s": 300 if tier == "quick" else 1500, "per_path_timeout": 60})
    for kind in ("load_model", "main"):
        for lens, nested in shapes:
            if kind == "main" and nested:
                continue
            out.append({"name": f"{kind},messages={'/'.join(map(str, lens))}{',nested' if nested else ''}",
                        "params": {"kind": kind, "lens": lens, "nested": nested},
                        "budget_s": 300 if tier == "quick" else 1500, "per_path_timeout": 60})
    return out


def describe(tier: str) -> Dict[str, Any]:
    return {
        "functions": [f"aas_core_codegen.{t}.main.execute" for t in LANG_TARGETS + SCHEMA_TARGETS] + [
            "aas_core_codegen.main.execute", "aas_core_codegen.run.load_model",
            "aas_core_codegen.run.write_error_report", "aas_core_codegen.common.LinenoColumner.error_message"],
        "bounds": "per target: the index of the failing generator step (every stubbed fallible call of a clean run), the index "
                  "of the failing mkdir/write_text, the index and kind (missing / unusable) of a bad snippet lookup -- all "
                  "symbolic; one or two error messages of 1..2 (thorough: ..3) arbitrary code points each, flat or nested "
                  "(underlying errors)",
        "outside": "the real generator steps (stubbed here; C02 looks at their kernels); whether the front end collects every "
                   "independent error of a meta-model; more than one simultaneous failure",
        "stubs": ["<target>_lib.*, <target>_tests.*, intermediate.errors_if_*: result shape derived from the real return "
                  "annotation, failure decided by a symbolic step index",
                  "jsonschema.main.generate / xsd.main._generate likewise",
                  "pathlib.Path -> vf.stubs.OutPath (in-memory, failure injection at a symbolic operation index; the failure is an OSError or, symbolically, a UnicodeEncodeError as write_text raises for lone surrogates)",
                  "spec_impls -> snippets of the repository's test data with one symbolic bad lookup"],
        "assumptions": ["error messages satisfy write_error_report's preconditions, hold no whitespace-only line and no line "
                        "separator other than U+000A",
                        "expected report: headline ':' newline, then per error '* ' + message with continuation lines "
                        "indented by two spaces (underlying errors by two more)"],
        "rule": "one shard per target and message shape",
    }
