"""C28 -- the smoke check agrees with the real generators (smoke/main.py)."""
from __future__ import annotations

import io
import pathlib
from typing import Any, Dict, List

from vf.common import REPO, assume
import harness.C03 as c03

PROPERTY = "C28"
LEVEL = "model_checking"


def make_harness(params: Dict[str, Any]):
    lens = params["lens"]
    nested = params["nested"]

    def harness(fail_at: int, syntax_error: bool, m0: str, m1: str) -> Any:
        raw = [m0, m1][: len(lens)]
        if len(lens) < 2:
            assume(len(m1) == 0)
        return c03.check_smoke(fail_at, syntax_error, raw, lens, nested)

    return harness


def shards(tier: str) -> List[Dict[str, Any]]:
    shapes = [([1], False), ([2], False), ([1, 1], False), ([1, 1], True)]
    if tier != "quick":
        shapes += [([3], False), ([2, 2], False), ([2, 2], True), ([3, 3], True)]
    return [{"name": f"smoke,messages={'/'.join(map(str, lens))}{',nested' if nested else ''}",
             "params": {"lens": lens, "nested": nested}, "budget_s": 300 if tier == "quick" else 1500,
             "per_path_timeout": 60} for lens, nested in shapes]


def _real_pipeline_ok(text: str) -> bool:
    """The four things the smoke tool stands for, run directly on the real code."""
    from aas_core_codegen import infer_for_schema, intermediate, parse, specific_implementations
    from aas_core_codegen.common import Stripped
    from aas_core_codegen.csharp import common as csharp_common, lib as csharp_lib

    atok, exc = parse.source_to_atok(source=text)
    if exc is not None:
        return False
    if parse.check_expected_imports(atok=atok):
        return False
    pst, error = parse.atok_to_symbol_table(atok=atok)
    if error is not None:
        return False
    st, error = intermediate.translate(parsed_symbol_table=pst, atok=atok)
    if error is not None:
        return False
    _, errors = infer_for_schema.infer_constraints_by_class(symbol_table=st)
    if errors is not None:
        return False
    verified, errors = csharp_lib.verify_for_types(st)
    if errors is not None:
        return False
    spec_impls = {}
    for cls in st.classes:
        if cls.is_implementation_specific:
            spec_impls[specific_implementations.ImplementationKey(f"Types/{cls.name}/{cls.name}.cs")] = Stripped("X")
            continue
        for method in cls.methods:
            if isinstance(method, intermediate.ImplementationSpecificMethod):
                spec_impls[specific_implementations.ImplementationKey(f"Types/{cls.name}/{method.name}.cs")] = Stripped("X")
    for verification in st.verification_functions:
        if isinstance(verification, intermediate.ImplementationSpecificVerification):
            spec_impls[specific_implementations.ImplementationKey(f"Verification/{verification.name}.cs")] = Stripped("X")
    namespace = csharp_common.NamespaceIdentifier("Dummy")
    _, errors = csharp_lib.generate_types(symbol_table=verified, namespace=namespace, spec_impls=spec_impls)
    if errors is not None:
        return False
    _, errors = csharp_lib.generate_verification(symbol_table=st, namespace=namespace, spec_impls=spec_impls)
    return errors is None


def extra_checks(tier: str) -> Dict[str, Any]:
    """Concrete part: the recorded smoke cases and agreement with the real pipeline on the repository's models."""
    import aas_core_codegen.smoke.main as smoke_main

    violations: List[Dict[str, Any]] = []
    recorded = 0
    for case_dir in sorted((REPO / "dev" / "test_data" / "smoke").glob("**/meta_model.py")):
        case_dir = case_dir.parent
        expected = case_dir / "expected_stderr.txt"
        if not expected.exists():
            continue
        recorded += 1
        stderr = io.StringIO()
        model = case_dir / "meta_model.py"
        try:
            rc = smoke_main.execute(model_path=model, stderr=stderr)
        except Exception as e:  # noqa
            violations.append({"key": "smoke:recorded-case-raises", "msg": f"{case_dir.name}: {e!r}", "args": str(model)})
            continue
        got = stderr.getvalue().replace(str(model), "<meta_model.py>")
        want = expected.read_text(encoding="utf-8")
        if rc != 1 or got != want:
            violations.append({"key": "smoke:recorded-case-differs-from-its-expectation",
                               "msg": f"{case_dir.relative_to(REPO)}: rc={rc}\n--- got\n{got}\n--- recorded\n{want}",
                               "args": str(model)})
    # agreement on concrete models (front end's own fixtures: accepted and rejected ones)
    models: List[pathlib.Path] = sorted((REPO / "dev" / "test_data" / "common_meta_models").glob("*.py"))
    if tier == "quick":
        models = [m for m in models if "aas_core_meta" not in m.name]
    for sub in ("parse", "intermediate"):
        models += sorted((REPO / "dev" / "test_data" / sub).glob("**/meta_model.py"))[: (40 if tier == "quick" else 10**6)]
    agree = 0
    for model in models:
        text = model.read_text(encoding="utf-8")
        stderr = io.StringIO()
        try:
            rc = smoke_main.execute(model_path=model, stderr=stderr)
        except Exception as e:  # noqa
            # a crash of the front end is C01's business; here only the agreement matters
            continue
        try:
            ok = _real_pipeline_ok(text)
        except Exception:  # noqa
            continue
        if (rc == 0) != ok or (rc != 0 and not stderr.getvalue()) or rc not in (0, 1):
            violations.append({"key": "smoke:verdict-differs-from-the-real-pipeline",
                               "msg": f"{model.relative_to(REPO)}: smoke rc={rc}, real pipeline ok={ok}", "args": str(model)})
        else:
            agree += 1
    return {"violations": violations,
            "evidence": {"recorded_cases_compared": recorded, "concrete_models_compared": agree,
                         "evaluations": recorded + agree, "distinct_nontrivial": recorded + agree}}


def describe(tier: str) -> Dict[str, Any]:
    return {
        "functions": ["aas_core_codegen.smoke.main.execute", "aas_core_codegen.smoke.main._smoke_transpile_to_csharp",
                      "aas_core_codegen.run.write_error_report", "aas_core_codegen.common.LinenoColumner.error_message"],
        "bounds": "symbolic part: index of the failing stage among all stubbed stages of smoke.main.execute (parse, imports, symbol table, "
                  "translation, constraint inference, C# verify_for_types / generate_types / generate_verification), parse failure as "
                  "SyntaxError or other exception, one or two error messages of 1..2 (thorough ..3) arbitrary code points, flat or nested. "
                  "Concrete part: the five recorded smoke cases and the repository's meta-model fixtures",
        "outside": "meta-models other than the repository's fixtures for the agreement with the real pipeline (the stages themselves are "
                   "stubbed in the symbolic part)",
        "stubs": ["parse.*, intermediate.translate, infer_for_schema.infer_constraints_by_class, csharp_lib.* replaced by step stubs whose "
                  "result shape follows the real return annotation"],
        "assumptions": ["as C03: messages satisfy write_error_report's preconditions, no whitespace-only lines, no exotic line separators"],
        "rule": "one shard per message shape; plus one evaluation per recorded case / concrete model",
    }
