"""C10 -- Python SDK serialization round-trips and rejects bad documents (JSON part)."""
from __future__ import annotations

import enum
import traceback
from typing import Any, Dict, List, Optional, Tuple

from aas_core_codegen import intermediate
from aas_core_codegen.common import Identifier
from aas_core_codegen.python import naming as python_naming

from vf.common import assume, fail
from vf.sdk import Pool
import harness.C08 as c08

PROPERTY = "C10"
LEVEL = "translation_validation"


def same(a: Any, b: Any, where: str) -> None:
    """Field-by-field equality of two SDK values."""
    if a is None or b is None:
        if not (a is None and b is None):
            fail("roundtrip:none-ness-differs", "%s: %r vs %r", where, a, b)
        return
    if isinstance(a, list):
        if not isinstance(b, list) or len(a) != len(b):
            fail("roundtrip:list-differs", "%s: %r vs %r", where, a, b)
        for i, (x, y) in enumerate(zip(a, b)):
            same(x, y, f"{where}[{i}]")
        return
    if isinstance(a, enum.Enum) or isinstance(b, enum.Enum):
        if a is not b:
            fail("roundtrip:enumeration-literal-differs", "%s: %r vs %r", where, a, b)
        return
    if hasattr(a, "__dict__") and not isinstance(a, (str, bytes, bytearray, int, float, bool)):
        if type(a) is not type(b):
            fail("roundtrip:class-differs", "%s: %s vs %s", where, type(a).__name__, type(b).__name__)
        for k, v in vars(a).items():
            same(v, getattr(b, k), f"{where}.{k}")
        return
    if isinstance(a, (bytes, bytearray)):
        if bytes(a) != bytes(b):
            fail("roundtrip:bytes-differ", "%s: %r vs %r", where, a, b)
        return
    if type(a) is bool or type(b) is bool:
        if (a is True) != (b is True):
            fail("roundtrip:bool-differs", "%s", where)
        return
    if a != b:
        fail("roundtrip:value-differs", "%s: %r vs %r", where, a, b)


def from_jsonable_of(sdk: Any, cls: intermediate.ClassUnion) -> Any:
    return getattr(sdk.jsonization, python_naming.function_name(Identifier(f"{cls.name}_from_jsonable")))


def check_roundtrip(model: str, cls_name: str, pool: Pool, depth: int, list_len: int, focus: Any) -> str:
    sdk = c08.sdk_of(model)
    cls = sdk.symbol_table.must_find_class(cls_name)
    instance, _ = sdk.build(cls, pool, depth, list_len, symbolic_props=focus)
    pool.finish()
    assume(not pool.exhausted)
    jsonable = sdk.jsonization.to_jsonable(instance)
    back = from_jsonable_of(sdk, cls)(jsonable)
    same(instance, back, cls_name)
    # through the abstract ancestors as well (dispatch on modelType)
    for ancestor in cls.ancestors if hasattr(cls, "ancestors") else []:
        pass
    for parent in _all_ancestors(cls):
        if parent.serialization is not None and parent.serialization.with_model_type:
            back2 = from_jsonable_of(sdk, parent)(jsonable)
            same(instance, back2, cls_name + " via " + parent.name)
    return "ok"


def _all_ancestors(cls: Any) -> List[Any]:
    out: List[Any] = []
    stack = list(cls.inheritances)
    while stack:
        c = stack.pop()
        if c not in out:
            out.append(c)
            stack.extend(c.inheritances)
    return out


WRONG = [1, "x", True, None, 1.5, [], {}, [1], {"modelType": "Unknown"}]


def check_rejection(model: str, cls_name: str, pool: Pool, depth: int, list_len: int, key_index: Any, kind: Any,
                    wrong_index: Any) -> str:
    """One mutation of a valid document: the de-serializer may accept or reject, but only with its own exception."""
    sdk = c08.sdk_of(model)
    cls = sdk.symbol_table.must_find_class(cls_name)
    instance, _ = sdk.build(cls, pool, depth, list_len)
    pool.finish()
    assume(not pool.exhausted)
    jsonable = sdk.jsonization.to_jsonable(instance)
    # collect the mutation points: (container, key) of every value in the document
    points: List[Tuple[Any, Any]] = []

    def walk(node: Any) -> None:
        if isinstance(node, dict):
            for k in list(node.keys()):
                points.append((node, k))
                walk(node[k])
        elif isinstance(node, list):
            for i in range(len(node)):
                points.append((node, i))
                walk(node[i])

    walk(jsonable)
    assume(0 <= key_index <= len(points))
    assume(0 <= kind <= 2)
    assume(0 <= wrong_index < len(WRONG))
    document: Any = jsonable
    label = "unchanged"
    if key_index == len(points):
        # the document itself is replaced
        for w, wrong in enumerate(WRONG):
            if wrong_index == w:
                document = wrong
        label = "root-replaced"
    else:
        for p, (container, key) in enumerate(points):
            if key_index == p:
                if kind == 0:
                    for w, wrong in enumerate(WRONG):
                        if wrong_index == w:
                            container[key] = wrong
                    label = "value-replaced"
                elif kind == 1 and isinstance(container, dict):
                    del container[key]
                    label = "key-dropped"
                elif kind == 2 and isinstance(container, dict):
                    container["unexpected" + str(key)] = container.pop(key)
                    label = "key-renamed"
                else:
                    assume(False)
    try:
        from_jsonable_of(sdk, cls)(document)
    except sdk.jsonization.DeserializationException:
        return label + ":rejected"
    except Exception as e:  # noqa
        inner = "?"
        for fr in traceback.extract_tb(e.__traceback__):
            if fr.filename.endswith("jsonization.py"):
                inner = fr.name
        fail(f"deserialize:{type(e).__name__}-instead-of-DeserializationException@{inner}", "%s: %r on %r", cls_name, e,
             document)
    return label + ":accepted"


def make_harness(params: Dict[str, Any]):
    model = params["model"]
    c08.sdk_of(model)

    def harness(s0: str, s1: str, s2: str, s3: str, s4: str, s5: str, i0: int, i1: int, i2: int, i3: int, i4: int,
                i5: int, b0: bool, b1: bool, b2: bool, b3: bool, b4: bool, b5: bool, b6: bool, b7: bool,
                key_index: int, kind: int, wrong_index: int) -> Any:
        pool = Pool([s0, s1, s2, s3, s4, s5], [i0, i1, i2, i3, i4, i5], [b0, b1, b2, b3, b4, b5, b6, b7], params["max_str"])
        if params["kind"] == "roundtrip":
            assume(key_index == 0 and kind == 0 and wrong_index == 0)
            return check_roundtrip(model, params["name"], pool, params["depth"], params["list_len"], params.get("focus"))
        return check_rejection(model, params["name"], pool, params["depth"], params["list_len"], key_index, kind, wrong_index)

    return harness


def shards(tier: str) -> List[Dict[str, Any]]:
    out = []
    for model in c08.MODELS:
        if model.startswith(c08.NOT_FOR_SERIALIZATION) or not c08.MODELS[model].exists():
            continue
        for kind, name, focus in c08._targets(model):
            if kind != "class":
                continue
            out.append({"name": f"roundtrip:{model}:{name}" + (":focus=" + "+".join(focus) if focus else ""),
                        "params": {"model": model, "kind": "roundtrip", "name": name, "focus": focus,
                                   "max_str": 2 if tier == "quick" else 3, "depth": 2, "list_len": 1 if tier == "quick" else 2},
                        "budget_s": 200 if tier == "quick" else 1500, "per_path_timeout": 60})
        seen = set()
        for kind, name, focus in c08._targets(model):
            if kind != "class" or name in seen:
                continue
            seen.add(name)
            # for the rejection clause the VALUES do not matter much: strings of at most one character, lists <= 1
            out.append({"name": f"mutated-document:{model}:{name}",
                        "params": {"model": model, "kind": "rejection", "name": name, "max_str": 1, "depth": 2,
                                   "list_len": 1},
                        "budget_s": 90 if tier == "quick" else 1500, "per_path_timeout": 60,
                        **({"exploratory": True} if tier == "quick" else {})})
    return out


def describe(tier: str) -> Dict[str, Any]:
    return {
        "functions": ["aas_core_codegen.python.lib._generate_jsonization.generate",
                      "aas_core_codegen.python.lib._generate_types.generate",
                      "aas_core_codegen.python.lib._generate_stringification.generate"],
        "bounds": "corpus and instance values as in C08 (lists <= 1 (2) items); round trip: to_jsonable then <class>_from_jsonable (and "
                  "through every ancestor that dispatches on modelType), compared field by field. Rejection: ONE mutation of a valid "
                  "document -- a value (symbolic position anywhere in the document, or the document itself) replaced by one of "
                  f"{WRONG!r}, a key dropped, a key renamed -- must raise nothing but DeserializationException",
        "outside": "XML (the generated xmlization sits on expat, which realizes every symbolic value: not encodable; no claim); floats other "
                   "than multiples of 0.5; byte arrays other than 0..2 0xff bytes; documents with more than one mutation",
        "stubs": [],
        "assumptions": ["equality is checked field by field on the instance dictionaries (the SDK defines no __eq__)"],
        "rule": "one shard per (model, class[, invariant focus]) for the round trip and per (model, class) for mutated documents; "
                "in the quick tier the mutated-document shards are budgeted explorations",
    }
