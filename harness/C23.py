"""C23 -- model caching is opt-in and transparent (main.py flag plumbing, run.load_model)."""
from __future__ import annotations

import sys
from typing import Any, Dict, List, Optional, Tuple

import aas_core_codegen.main as main_mod
from aas_core_codegen import run

from vf.cachefs import CACHE_PREFIX, CacheFs, CPath, Tagged, _PathlibProxy, installed
from vf.common import assume, fail
from vf.stubs import Sink

PROPERTY = "C23"
LEVEL = "model_checking"

# two different models, and two texts which differ from the first one only in leading / trailing blank lines
# (a cache key which normalises the text would serve them the entry -- and the source positions -- of another text)
TEXTS = ["class A:\n    pass\n", "class B:\n    pass\n", "\n\nclass A:\n    pass\n", "class A:\n    pass\n\n \n"]


def one_cli_run(fs: CacheFs, text_index: int, flag: bool, via: str) -> Tuple[Any, Sink, Sink, List[Any]]:
    """One generator run against ``fs`` through main.main (argv) or main.execute (Parameters)."""
    fs.run_id += 1
    fs.files["/in/meta_model.py"] = TEXTS[text_index]
    fs.dirs.add("/in/snippets")
    seen: List[Any] = []

    def target_execute(context: Any, stdout: Any, stderr: Any) -> int:
        seen.append(context.symbol_table)
        (context.output_dir / "generated.txt").write_text("code", encoding="utf-8")
        stdout.write(f"Code generated to: {context.output_dir}\n")
        return 0

    class TargetProxy:
        execute = staticmethod(target_execute)

    target_names = [n for n in vars(main_mod) if n.endswith("_main")]
    saved = {n: getattr(main_mod, n) for n in target_names + ["pathlib"]}
    saved_argv, saved_out, saved_err = sys.argv, sys.stdout, sys.stderr
    stdout, stderr = Sink(), Sink()
    try:
        for n in target_names:
            setattr(main_mod, n, TargetProxy)
        main_mod.pathlib = _PathlibProxy(fs)  # type: ignore
        with installed(run, fs):
            if via == "argv":
                sys.argv = ["aas-core-codegen", "--model_path", "/in/meta_model.py", "--snippets_dir", "/in/snippets",
                            "--output_dir", "/out", "--target", "python"] + (["--cache_model"] if flag else [])
                sys.stdout, sys.stderr = stdout, stderr  # type: ignore
                rc = main_mod.main("aas-core-codegen")
            else:
                params = main_mod.Parameters(model_path=CPath(fs, "/in/meta_model.py"), target=main_mod.Target.PYTHON,  # type: ignore
                                             snippets_dir=CPath(fs, "/in/snippets"), output_dir=CPath(fs, "/out"),  # type: ignore
                                             cache_model=flag)
                rc = main_mod.execute(params=params, stdout=stdout, stderr=stderr)  # type: ignore
    finally:
        sys.argv, sys.stdout, sys.stderr = saved_argv, saved_out, saved_err
        for n, v in saved.items():
            setattr(main_mod, n, v)
    return rc, stdout, stderr, seen


def check(history: List[Tuple[int, bool]], via: str) -> str:
    fs = CacheFs()
    for k, (text_index, flag) in enumerate(history):
        before = len(fs.ops)
        rc, stdout, stderr, seen = one_cli_run(fs, text_index, flag, via)
        ops = fs.ops[before:]
        where = f"run{k + 1}of{len(history)}"
        # -- transparent: same status / streams / result as an uncached run on THIS text
        if rc != 0 or not stderr.empty():
            fail("cache:run-fails-although-an-uncached-run-succeeds:" + where, "rc=%r stderr=%r", rc, lambda: stderr.value())
        if stdout.value() != "Code generated to: /out\n":
            fail("cache:stdout-differs-from-an-uncached-run:" + where, "%r", lambda: stdout.value())
        if len(seen) != 1 or not isinstance(seen[0], Tagged):
            fail("cache:generator-did-not-receive-a-symbol-table:" + where)
        if seen[0].tag != TEXTS[text_index]:
            fail("cache:symbol-table-of-ANOTHER-model-text-is-used:" + where, "history=%r", history)
        if fs.files.get("/out/generated.txt") != "code":
            fail("cache:output-differs-from-an-uncached-run:" + where)
        # -- opt-in: without the flag the cache is neither read nor written
        touched = [op for op in ops if CACHE_PREFIX in op[2]]
        if not flag and touched:
            fail("cache:touched-without---cache_model:" + where, "ops=%r", touched)
        # -- writes only inside the output directory (and, with the flag, the cache directory)
        for _, name, path in ops:
            if name in ("mkdir", "write_text", "open_wb", "rename", "unlink", "dump"):
                if path.startswith("/out"):
                    continue
                if flag and CACHE_PREFIX in path:
                    continue
                fail("cache:write-outside-the-output-directory:" + where, "op=%r", (name, path))
        # -- no stray temporary file after a completed run
        for path in fs.files:
            if path.endswith(".tmp"):
                fail("cache:temporary-file-left-behind:" + where, "%r", path)
    return "ok"


def make_harness(params: Dict[str, Any]):
    n = params["runs"]
    via = params["via"]

    def harness(t0: int, t1: int, t2: int, t3: int, f0: bool, f1: bool, f2: bool, f3: bool) -> Any:
        ts, fs_ = [t0, t1, t2, t3], [f0, f1, f2, f3]
        history: List[Tuple[int, bool]] = []
        for i in range(4):
            if i >= n:
                assume(ts[i] == 0 and not fs_[i])
                continue
            chosen = -1
            for k in range(len(TEXTS)):
                if ts[i] == k:
                    chosen = k
            assume(chosen >= 0)
            history.append((chosen, True if fs_[i] else False))
        return check(history, via)

    return harness


def shards(tier: str) -> List[Dict[str, Any]]:
    out = []
    for via in ("argv", "parameters"):
        for n in ((1, 2, 3) if tier == "quick" else (1, 2, 3, 4)):
            out.append({"name": f"{via},runs={n}", "params": {"runs": n, "via": via},
                        "budget_s": 300 if tier == "quick" else 1500, "per_path_timeout": 60})
    return out


def extra_checks(tier: str) -> Dict[str, Any]:
    """'An unpickled symbol table answers every query like the original' -- concrete pickle round trip of real tables."""
    import pickle
    from aas_core_codegen import intermediate
    from vf.common import REPO
    from vf.models import front_end

    violations: List[Dict[str, Any]] = []
    n = 0
    models = sorted((REPO / "dev" / "test_data" / "common_meta_models").glob("*.py"))
    if tier == "quick":
        models = [m for m in models if "aas_core_meta" not in m.name]
    for model in models:
        st, err, atok = front_end(model.read_text(encoding="utf-8"))
        if st is None:
            continue
        n += 1
        try:
            st2, atok2 = pickle.loads(pickle.dumps((st, atok)))
        except Exception as e:  # noqa
            violations.append({"key": "cache:symbol-table-cannot-be-pickled", "msg": f"{model.name}: {e!r}", "args": str(model)})
            continue
        problems: List[str] = []
        if [t.name for t in st.our_types] != [t.name for t in st2.our_types]:
            problems.append("our_types differ")
        for t1, t2 in zip(st.our_types, st2.our_types):
            if st2.find_our_type(t1.name) is not t2 or st2.must_find_our_type(t1.name) is not t2:
                problems.append(f"find_our_type({t1.name}) does not return the unpickled type")
            if isinstance(t1, intermediate.Class):
                if [p.name for p in t1.properties] != [p.name for p in t2.properties]:
                    problems.append(f"properties of {t1.name} differ")
                for p in t2.properties:
                    if t2.properties_by_name.get(p.name) is not p:
                        problems.append(f"{t1.name}.properties_by_name[{p.name}] is not the property")
                if sorted(c.name for c in t1.concrete_descendants) != sorted(c.name for c in t2.concrete_descendants):
                    problems.append(f"concrete_descendants of {t1.name} differ")
                for m in t2.methods:
                    if t2.methods_by_name.get(m.name) is not m:
                        problems.append(f"{t1.name}.methods_by_name[{m.name}] is not the method")
                if {id_ for id_ in t1.invariant_id_set} and len(t1.invariant_id_set) != len(t2.invariant_id_set):
                    problems.append(f"invariant_id_set of {t1.name} differs in size")
                for inv in t2.invariants:
                    if id(inv) not in t2.invariant_id_set:
                        problems.append(f"{t1.name}.invariant_id_set misses an invariant after unpickling")
                        break
                for anc in t2.inheritances:
                    if not t2.is_subclass_of(anc):
                        problems.append(f"is_subclass_of fails for {t1.name} after unpickling")
            if isinstance(t1, intermediate.Enumeration):
                for lit in t2.literals:
                    if t2.literals_by_name.get(lit.name) is not lit or id(lit) not in t2.literal_id_set:
                        problems.append(f"literal lookups of {t1.name} fail after unpickling")
                        break
        for c1, c2 in zip(st.constants, st2.constants):
            if c1.name != c2.name or st2.constants_by_name.get(c2.name) is not c2:
                problems.append(f"constant {c1.name} differs")
        for f1, f2 in zip(st.verification_functions, st2.verification_functions):
            if f1.name != f2.name or st2.verification_functions_by_name.get(f2.name) is not f2:
                problems.append(f"verification function {f1.name} differs")
        if problems:
            violations.append({"key": "cache:unpickled-symbol-table-answers-differently",
                               "msg": f"{model.name}: " + "; ".join(problems[:5]), "args": str(model)})
    return {"violations": violations, "evidence": {"pickle_round_trips_of_real_symbol_tables": n, "evaluations": n,
                                                   "distinct_nontrivial": n}}


def describe(tier: str) -> Dict[str, Any]:
    return {
        "functions": ["aas_core_codegen.main.main", "aas_core_codegen.main.Parameters", "aas_core_codegen.main.execute",
                      "aas_core_codegen.run.load_model", "aas_core_codegen.intermediate._types.SymbolTable"],
        "bounds": "histories of 1..3 (thorough ..4) generator runs on one shared file system; per run the model text (one of four: two models, and two variants of the first which differ only in blank lines at the start / end) and "
                  "the --cache_model flag are symbolic; entered through the command line (argv) and through Parameters",
        "outside": "the content of real pickles (the pickle module is a box here; a concrete pickle round trip of the repository's "
                   "symbol tables is reported beside the verdict); hash collisions of SHA-256; other texts than the four",
        "stubs": ["pathlib/tempfile/pickle/uuid inside run.py and pathlib inside main.py -> vf.cachefs (in-memory, every operation logged)",
                  "front end -> uninterpreted function of the model text (the table is tagged with the text it was computed from)",
                  "<target>_main.execute -> writes one file to the output directory and the closing line"],
        "assumptions": ["hashlib.sha256 is collision free on the two texts (it runs for real)"],
        "rule": "one shard per entry point and history length; the solver enumerates texts and flags (finite family, stated)",
    }
