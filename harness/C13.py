"""C13 / C14 -- XSD: patterns and length / list-size facets neither reject valid data (C13) nor admit invalid data (C14)."""
from __future__ import annotations

import itertools
import xml.etree.ElementTree as ET
from typing import Any, Dict, List, Optional, Tuple

from aas_core_codegen.xsd import main as xsd_main

from vf.common import REPO, assume, fail, pin_int, realize, untraced
import harness.C02 as c02
import harness.C15 as c15

PROPERTY = "C13"
LEVEL = "translation_validation"
DIRECTION = "never-rejects-valid"

XS = "{http://www.w3.org/2001/XMLSchema}"
BIG = 1000

# template -> [(class group name, element name, kind 'str' | 'list', slots in scope)]
FACET_PROBES = {
    "own2": [("something", "x", "str", [0, 1])],
    "optional": [("something", "x", "str", [0, 1])],
    "list": [("something", "x", "list", [0]), ("something", "y", "list", [1])],
    "constrained_primitive": [("something", "x", "str", [0, 1, 2]), ("something", "y", "str", [0])],
}


def facets_of(xsd_text: str, group: str, element: str, kind: str) -> Tuple[int, int]:
    """[min, max] which the XSD admits for the length of the string / the number of list items."""
    root = ET.fromstring(xsd_text)
    for g in root.iter(f"{XS}group"):
        if g.attrib.get("name") != group:
            continue
        for el in g.iter(f"{XS}element"):
            if el.attrib.get("name") != element:
                continue
            lo, hi = 0, BIG
            if kind == "str":
                for restriction in el.iter(f"{XS}restriction"):
                    for facet in restriction:
                        if facet.tag == f"{XS}minLength":
                            lo = max(lo, int(facet.attrib["value"]))
                        elif facet.tag == f"{XS}maxLength":
                            hi = min(hi, int(facet.attrib["value"]))
                        elif facet.tag == f"{XS}length":
                            lo, hi = max(lo, int(facet.attrib["value"])), min(hi, int(facet.attrib["value"]))
                return lo, hi
            for item in el.iter(f"{XS}element"):
                if item is el:
                    continue
                lo = int(item.attrib.get("minOccurs", "1"))
                mx = item.attrib.get("maxOccurs", "1")
                hi = BIG if mx == "unbounded" else int(mx)
                return lo, hi
            return lo, hi
    raise AssertionError(f"element {group}/{element} not found in the XSD")


def check_facets(name: str, ops: List[int], orders: List[bool], consts: List[Any], n: Any, direction: str, lo: int = 0,
                 hi: int = 5) -> str:
    # The XSD generator serializes and re-parses XML (expat): symbolic values cannot pass through it.  The bounded
    # constants and the probe are therefore realized first -- the solver ENUMERATES them (finite family, stated) -- and
    # the real generator runs concretely on each combination.
    consts = [pin_int(c, lo, hi) for c in consts]
    n = pin_int(n, 0, hi + 1)
    return untraced(_check_facets_concrete, name, ops, orders, consts, n, direction)


def _check_facets_concrete(name: str, ops: List[int], orders: List[bool], consts: List[Any], n: Any, direction: str) -> str:
    st, slots, originals = c15.load(name)
    for i, cmp_node in slots.items():
        len_call, const_node = originals[i]
        const_node.value = consts[i]
        cmp_node.op = c15.OPS[ops[i]]
        if orders[i]:
            cmp_node.left, cmp_node.right = len_call, const_node
        else:
            cmp_node.left, cmp_node.right = const_node, len_call
    code, errors = xsd_main._generate(symbol_table=st, spec_impls=c02._XSD_SNIPPETS)
    if errors is not None:
        return "errors"
    text = code
    for group, element, kind, in_scope in FACET_PROBES[name]:
        lo, hi = c15.conjunction(in_scope, ops, orders, consts)
        conj_admits = bool(lo <= n and n <= hi)
        f_lo, f_hi = facets_of(text, group, element, kind)
        xsd_admits = bool(f_lo <= n and n <= f_hi)
        if direction == "never-rejects-valid" and conj_admits and not xsd_admits:
            fail("facets:xsd-rejects-a-length-which-the-invariants-admit", "%s/%s: n=%d invariants [%d, %d] facets [%d, %d]", group, element,
                 n, lo, hi, f_lo, f_hi)
        if direction == "enforces" and xsd_admits and not conj_admits:
            fail("facets:xsd-admits-a-length-which-the-invariants-forbid", "%s/%s: n=%d invariants [%d, %d] facets [%d, %d]", group, element,
                 n, lo, hi, f_lo, f_hi)
    return "compared"


def make_harness(params: Dict[str, Any], direction: Optional[str] = None):
    direction = direction or DIRECTION
    name, nslots, fixed_ops = params["template"], params["slots"], params["ops"]
    c15.load(name)

    def harness(l0: bool, l1: bool, l2: bool, c0: int, c1: int, c2: int, n: int) -> Any:
        orders_in, consts = [l0, l1, l2], [c0, c1, c2]
        orders: List[bool] = []
        for i in range(3):
            if i >= nslots:
                assume(orders_in[i] and consts[i] == 0)
                orders.append(True)
            else:
                assume(params["lo"] <= consts[i] <= params["hi"])
                if params.get("fixed_orders"):
                    assume(orders_in[i])
                    orders.append(True)
                else:
                    orders.append(True if orders_in[i] else False)
        assume(0 <= n <= params["hi"] + 1)
        return check_facets(name, fixed_ops, orders, consts, n, direction, params["lo"], params["hi"])

    return harness


def shards(tier: str) -> List[Dict[str, Any]]:
    out = []
    for name in FACET_PROBES:
        k = c15.SLOTS[name]
        ops_set = (0, 2, 4) if tier == "quick" else range(5)
        combos = [list(t) + [0] * (3 - k) for t in itertools.product(ops_set, repeat=k)]
        if tier == "quick" and k == 3:
            combos = [c for c in combos if c in ([0, 0, 0], [0, 2, 4], [4, 4, 0], [2, 0, 4], [4, 2, 2], [0, 4, 4])]
        for ops in combos:
            out.append({"name": f"facets:{name},ops=" + " ".join(c15.OP_NAMES[o] for o in ops[:k]),
                        "params": {"template": name, "slots": k, "ops": ops, "lo": 0, "hi": 3 if tier == "quick" else 5,
                                   "fixed_orders": False},
                        "budget_s": 150 if tier == "quick" else 1500, "per_path_timeout": 60})
    return out


# ------------------------------------------------------------------------------------------------- patterns (rx engine)
def corpus_patterns(tier: str) -> List[str]:
    pats: List[str] = []
    for p in sorted((REPO / "dev/test_data/intermediate_revm").glob("**/pattern.regex")):
        pats.append(p.read_text(encoding="utf-8"))
    from vf.models import front_end
    models = sorted((REPO / "dev/test_data/common_meta_models").glob("*.py"))
    if tier == "quick":
        models = [m for m in models if "aas_core_meta" not in m.name]
    from aas_core_codegen import intermediate
    for m in models:
        st, _, _ = front_end(m.read_text(encoding="utf-8"))
        if st is None:
            continue
        for fn in st.verification_functions:
            if isinstance(fn, intermediate.PatternVerification):
                pats.append(fn.pattern)
    # a small grammar-enumerated family around the constructs the translation touches
    atoms = ["a", r"\x2a", r"\x5c", r"\$", r"\.", "[a-c]", "[^a]", "\\" + "uD7FF", r"\U00010000", "[" + "\\" + "x20-" + "\\" + "uD7FF]", "(a|bc)", ".", r"\^", r"\-",
             r"[\-a]", r"\x41", r"\t", r"[\x2a-\x2d]"]
    quants = ["", "*", "+", "?", "{1,2}"]
    for a in atoms:
        for q in quants:
            pats.append(f"^{a}{q}$")
    for a, b in itertools.product(atoms[:8], repeat=2):
        pats.append(f"^{a}{b}$")
    seen = set()
    out = []
    for p in pats:
        if p not in seen:
            seen.add(p)
            out.append(p)
    return out


def compare_patterns(tier: str, direction: str) -> Dict[str, Any]:
    import re
    from aas_core_codegen.parse import retree
    from vf import rx, xsdre

    violations: List[Dict[str, Any]] = []
    seen_keys = set()
    stats = {"patterns": 0, "not-accepted-by-the-front-end": 0, "compared": 0, "unsupported": 0}
    max_len = 4 if tier == "quick" else 7

    def report(key: str, msg: str, pattern: str) -> None:
        if key not in seen_keys:
            seen_keys.add(key)
            violations.append({"key": key, "msg": msg, "args": {"pattern": pattern}})

    q0 = rx.STATS["queries"]
    for pattern in corpus_patterns(tier):
        stats["patterns"] += 1
        try:
            re.compile(pattern)
        except re.error:
            stats["not-accepted-by-the-front-end"] += 1
            continue
        tree, err = retree.parse([pattern])
        if err is not None:
            stats["not-accepted-by-the-front-end"] += 1
            continue
        try:
            translated, error = xsd_main._translate_pattern(pattern)
        except Exception as e:  # noqa
            report("pattern:translation-raises:" + type(e).__name__, f"{pattern!r}: {e!r}", pattern)
            continue
        if error is not None:
            # the generator reports an error for an accepted pattern: no schema is written -- not a question of validity
            continue
        try:
            xsd_ast = xsdre.parse(translated)
        except xsdre.XsdRegexError as e:
            if direction == "never-rejects-valid":
                cause = "python-escape-left-in-the-pattern" if re.search(r"\\[xuU$]", translated) else "other"
                report("pattern:translation-is-not-an-xml-schema-regex:" + cause, f"{pattern!r} -> {translated!r}: {e}", pattern)
            continue
        except rx.Unsupported:
            stats["unsupported"] += 1
            continue
        try:
            py_ast = rx.parse_python(pattern)
        except rx.Unsupported:
            stats["unsupported"] += 1
            continue
        stats["compared"] += 1
        # Python: re.match on '^...$' == full match up to a trailing newline, which the alphabet excludes anyway
        a, b = (py_ast, xsd_ast) if direction == "never-rejects-valid" else (xsd_ast, py_ast)
        res = rx.compare(_anchor(a, a is xsd_ast), _anchor(b, b is xsd_ast), max_len, mode="fullmatch", relation="subset",
                         alphabet=xsdre.XML_CHARS_NO_LINE_BREAKS, allow_newline=False)
        if res["verdict"] == "refuted":
            w = "".join(chr(c) for c in res["witness"])
            cause = "unescaped-\\x-escape-becomes-syntax" if re.search(r"\\x(2[a8-9abBA]|3[fF]|5[b-eB-E]|7[b-dB-D]|2[eE]|24)", pattern) else "other"
            if direction == "never-rejects-valid":
                report("pattern:xsd-rejects-a-string-the-pattern-accepts:" + cause,
                       f"{pattern!r} -> {translated!r}: {w!r} matches the meta-model pattern but not the XSD pattern", pattern)
            else:
                report("pattern:xsd-accepts-a-string-the-pattern-rejects:" + cause,
                       f"{pattern!r} -> {translated!r}: {w!r} matches the XSD pattern but not the meta-model pattern", pattern)
        elif res["verdict"] == "unknown":
            stats["unsupported"] += 1
    stats["rx_queries"] = rx.STATS["queries"] - q0
    stats["rx_solver_s"] = round(rx.STATS["solver_s"], 2)
    stats["max_string_length"] = max_len
    return {"violations": violations, "evidence": {"pattern_comparison": stats, "evaluations": stats["compared"],
                                                   "distinct_nontrivial": stats["compared"]}}


def _anchor(ast: Any, is_xsd: bool) -> Any:
    return ast  # XSD patterns are implicitly anchored; the Python side is compared in fullmatch mode


def extra_checks(tier: str) -> Dict[str, Any]:
    return compare_patterns(tier, DIRECTION)


def describe(tier: str, direction: Optional[str] = None) -> Dict[str, Any]:
    direction = direction or DIRECTION
    return {
        "functions": ["aas_core_codegen.xsd.main._translate_pattern", "aas_core_codegen.xsd.main._undo_escaping_backslash_x_in_pattern",
                      "aas_core_codegen.xsd.main._translate_to_simple_type", "aas_core_codegen.xsd.main._generate",
                      "aas_core_codegen.parse.retree._render.render", "aas_core_codegen.infer_for_schema._inline.infer_constraints_by_class"],
        "bounds": "patterns: the repository's pattern fixtures and the patterns of its meta-models plus a grammar-enumerated family (atoms with "
                  "escapes \\x2a \\x5c \\$ \\. \\uD7FF \\U00010000, sets, complemented sets, groups, quantifiers, pairs of atoms); the REAL "
                  "_translate_pattern output is read by a strict XML Schema regex reader and compared with CPython's reading of the original by "
                  "z3 for ALL strings of XML characters without line breaks up to length 4 (thorough 7): "
                  + ("L(pattern) subset of L(xsd)" if direction == "never-rejects-valid" else "L(xsd) subset of L(pattern)") +
                  ". Facets: the C15 templates with comparison constants in [0, 3] (thorough [0, 5]), both operand orders: minLength / maxLength / minOccurs / maxOccurs "
                  "read from the REAL generated XSD vs. the conjunction of the invariants for a symbolic length",
        "outside": "validity of the XSD as a whole and validation of whole documents (needs an XSD validator / an XML parser on a symbolic "
                   "document: not encodable, see DESIGN.md); unknown / misplaced / missing elements (C14's last clause); \\d \\w \\s \\p{..}",
        "stubs": [],
        "assumptions": ["facets: the bounded comparison constants and the probe length are enumerated by the solver and the real XSD generator runs concretely per combination (it serializes and re-parses XML, which no symbolic value survives) -- a finite family, stated honestly",
                        "the XSD regex reader (vf/xsdre.py) follows XML Schema Part 2 appendix F strictly: an escape it does not define is an error"],
        "rule": "one sx shard per facet template and comparator combination; one z3 language comparison per pattern and string length",
    }
