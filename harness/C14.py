"""C14 -- the XSD enforces the constraints a class declares itself (converse direction of C13; shared machinery)."""
from __future__ import annotations

from typing import Any, Dict, List

import harness.C13 as c13

PROPERTY = "C14"
LEVEL = "translation_validation"


def make_harness(params: Dict[str, Any]):
    return c13.make_harness(params, direction="enforces")


def shards(tier: str) -> List[Dict[str, Any]]:
    return c13.shards(tier)


def extra_checks(tier: str) -> Dict[str, Any]:
    return c13.compare_patterns(tier, "enforces")


def describe(tier: str) -> Dict[str, Any]:
    return c13.describe(tier, "enforces")
