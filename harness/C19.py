"""C19 -- emitted literals denote exactly the original values (all six targets)."""
from __future__ import annotations

import collections.abc
from typing import Any, Callable, Dict, List, Optional, Tuple

from aas_core_codegen.python import common as python_common
from aas_core_codegen.cpp import common as cpp_common
from aas_core_codegen.csharp import common as csharp_common
from aas_core_codegen.java import common as java_common
from aas_core_codegen.typescript import common as typescript_common
from aas_core_codegen.golang import common as golang_common

from vf.common import Violation, assume, fail, symbolic
from vf.oracles import literals as L

PROPERTY = "C19"
LEVEL = "model_checking"


# --- stub: dict lookup with a symbolic key as a linear equality scan (a real dict hashes -> realizes the key)
class ScanMapping(collections.abc.Mapping):
    def __init__(self, d: Dict[str, str]) -> None:
        self._items = list(d.items())

    def __getitem__(self, key: str) -> str:
        for k, v in self._items:
            if key == k:
                return v
        raise KeyError(key)

    def get(self, key: str, default: Any = None) -> Any:
        for k, v in self._items:
            if key == k:
                return v
        return default

    def __contains__(self, key: object) -> bool:
        for k, _ in self._items:
            if key == k:
                return True
        return False

    def __iter__(self):
        return iter(k for k, _ in self._items)

    def __len__(self) -> int:
        return len(self._items)


def _install_scan_mappings() -> List[str]:
    done = []
    for mod in (python_common, typescript_common):
        for name, val in list(vars(mod).items()):
            if name.startswith("_") and "ESCAPING" in name and isinstance(val, dict):
                setattr(mod, name, ScanMapping(val))
                done.append(f"{mod.__name__}.{name}")
    return done


_STUBBED = _install_scan_mappings()

SQ = python_common.StringQuoting.SINGLE_QUOTES
DQ = python_common.StringQuoting.DOUBLE_QUOTES


def _py_wo(quoting, text, dup):
    body = python_common.string_literal(text, quoting=quoting, without_enclosing=True, duplicate_curly_brackets=dup)
    q = "'" if quoting is SQ else '"'
    return q + body + q


# unit name -> (emit(text) -> literal, read(literal) -> Optional[List[int]], domain predicate on a char code)
STRING_UNITS: Dict[str, Tuple[Callable[[str], str], Callable[[str], Optional[List[int]]], Optional[Callable[[int], Any]]]] = {
    "python.string_literal": (lambda t: python_common.string_literal(t), L.read_python_str, None),
    "python.string_literal[single]": (lambda t: python_common.string_literal(t, quoting=SQ), L.read_python_str, None),
    "python.string_literal[double]": (lambda t: python_common.string_literal(t, quoting=DQ), L.read_python_str, None),
    "python.string_literal[fstring]": (lambda t: python_common.string_literal(t, duplicate_curly_brackets=True),
                                       lambda s: L.read_python_str(s, True), None),
    "python.string_literal[single,without_enclosing]": (lambda t: _py_wo(SQ, t, False), L.read_python_str, None),
    "python.string_literal[double,without_enclosing,fstring]": (lambda t: _py_wo(DQ, t, True),
                                                                lambda s: L.read_python_str(s, True), None),
    "cpp.wstring_literal": (cpp_common.wstring_literal, L.read_cpp_wstring, None),
    "cpp.string_literal": (cpp_common.string_literal, L.read_cpp_string, lambda c: c <= 127),
    "csharp.string_literal": (csharp_common.string_literal, L.read_csharp_string, None),
    "java.string_literal": (java_common.string_literal, L.read_java_string, None),
    "typescript.string_literal": (lambda t: typescript_common.string_literal(t), L.read_ts_string, None),
    "typescript.string_literal[backticks]": (lambda t: typescript_common.string_literal(t, in_backticks=True),
                                             L.read_ts_template, None),
    "typescript.string_literal[without_enclosing]": (
        lambda t: '"' + typescript_common.string_literal(t, without_enclosing=True) + '"', L.read_ts_string, None),
    "golang.string_literal": (golang_common.string_literal, L.read_go_string, None),
}

# warm up icontract
for _u, (_emit, _read, _dom) in STRING_UNITS.items():
    _emit("a\"b'\\")
cpp_common.wchar_literal("a")
python_common.bytes_literal(b"123456789")


def _char_class(c: str) -> str:
    o = ord(c)
    if o == 0:
        return "nul"
    if o < 16:
        return "ctrl<16"
    if o < 32:
        return "ctrl<32"
    if c == '"' or c == "'" or c == "`":
        return "quote"
    if c == "\\":
        return "backslash"
    if c == "{" or c == "}" or c == "$":
        return "brace-or-dollar"
    if ("0" <= c <= "9") or ("a" <= c <= "f") or ("A" <= c <= "F"):
        return "hexdigit"
    if o < 127:
        return "ascii"
    if o == 127:
        return "del"
    if o == 0x85:
        return "nel-0085"
    if o < 256:
        return "latin1"
    if o == 0x2028 or o == 0x2029:
        return "ls-ps"
    if 0xD800 <= o <= 0xDFFF:
        return "surrogate"
    if o < 0x10000:
        return "bmp"
    return "astral"


def _verdict(unit: str, text: str) -> Optional[str]:
    """None if the emitted literal denotes ``text``; else 'rejected' / 'denotes-other-value' / 'raised:<Exc>'."""
    emit, read, _dom = STRING_UNITS[unit]
    lit = emit(text)
    got = read(lit)
    if got is None:
        return "rejected-by-the-language"
    if len(got) != len(text):
        return "denotes-other-value"
    for g, c in zip(got, text):
        if g != ord(c):
            return "denotes-other-value"
    return None


def check_string(unit: str, text: str) -> str:
    v = _verdict(unit, text)
    if v is not None:
        # localise: the smallest failing piece decides the key (so that a finding is specific)
        for c in text:
            v1 = _verdict(unit, c)
            if v1 is not None:
                fail(f"{unit}:{v1}:char={_char_class(c)}", "text=%r emitted %r", text, lambda: STRING_UNITS[unit][0](text))
        for i in range(len(text) - 1):
            pair = text[i:i + 2]
            v2 = _verdict(unit, pair)
            if v2 is not None:
                fail(f"{unit}:{v2}:pair={_char_class(pair[0])}+{_char_class(pair[1])}", "text=%r emitted %r", text,
                     lambda: STRING_UNITS[unit][0](text))
        fail(f"{unit}:{v}:longer-context", "text=%r emitted %r", text, lambda: STRING_UNITS[unit][0](text))
    return "ok"


def check_wchar(c: str) -> str:
    lit = cpp_common.wchar_literal(c)
    got = L.read_cpp_wchar(lit)
    if got is None:
        fail(f"cpp.wchar_literal:rejected-by-the-language:char={_char_class(c)}", "char=%r emitted %r", c, lit)
    if got[0] != ord(c):
        fail(f"cpp.wchar_literal:denotes-other-value:char={_char_class(c)}", "char=%r emitted %r", c, lit)
    return "ok"


# --- bytes ---------------------------------------------------------------------------------------
def _hex2(s: str) -> int:
    return L._hex_run(s, 0, 2)


def _read_hex_items(body: str) -> Optional[List[int]]:
    out: List[int] = []
    for item in body.replace("\n", " ").replace("\t", " ").split(","):
        item = item.strip(" ")
        if len(item) != 4 or item[0] != "0" or item[1] != "x":
            return None
        v = _hex2(item[2:])
        if v < 0:
            return None
        out.append(v)
    return out


def _read_python_bytes(lit: str) -> Optional[List[int]]:
    out: List[int] = []
    for line in lit.split("\n"):
        if len(line) < 3 or line[0] != "b" or line[1] != '"' or line[-1] != '"':
            return None
        body = line[2:-1]
        if len(body) % 4 != 0:
            return None
        for i in range(0, len(body), 4):
            if body[i] != "\\" or body[i + 1] != "x":
                return None
            v = _hex2(body[i + 2:i + 4])
            if v < 0:
                return None
            out.append(v)
    return out


def _unwrap(lit: str, prefix: str, suffix: str) -> Optional[str]:
    if not lit.startswith(prefix) or not lit.endswith(suffix) or len(lit) < len(prefix) + len(suffix):
        return None
    return lit[len(prefix):len(lit) - len(suffix)]


def _read_bytes(unit: str, lit: str) -> Optional[List[int]]:
    if unit == "python.bytes_literal":
        return _read_python_bytes(lit)
    if unit == "cpp.bytes_literal":
        if lit == "std::vector<std::uint8_t>()":
            return []
        body = _unwrap(lit, "{", "}")
    elif unit == "typescript.bytes_literal":
        if lit == "new Uint8Array()":
            return []
        body = _unwrap(lit, "new Uint8Array(", ")")
        if body is not None:
            body = _unwrap(body.strip(" \n"), "[", "]")
    elif unit == "golang.bytes_literal":
        b1 = _unwrap(lit, "[...]byte{", "}")
        body = b1 if b1 is not None else _unwrap(lit, "[...]byte {", "}")
    else:
        raise AssertionError(unit)
    if body is None:
        return None
    if body.strip(" \n\t") == "":
        return []
    return _read_hex_items(body)


BYTES_UNITS = {
    "python.bytes_literal": python_common.bytes_literal,
    "cpp.bytes_literal": cpp_common.bytes_literal,
    "typescript.bytes_literal": typescript_common.bytes_literal,
    "golang.bytes_literal": golang_common.bytes_literal,
}


def check_bytes(unit: str, value: bytes) -> str:
    lit, multi = BYTES_UNITS[unit](value)
    got = _read_bytes(unit, lit)
    if got is None:
        fail(f"{unit}:malformed", "value=%r emitted %r", value, lit)
    if len(got) != len(value):
        fail(f"{unit}:denotes-other-value:length", "value=%r emitted %r", value, lit)
    for g, b in zip(got, value):
        if g != b:
            fail(f"{unit}:denotes-other-value", "value=%r emitted %r", value, lit)
    if multi != ("\n" in lit):
        fail(f"{unit}:multi-line-flag-wrong", "value=%r emitted %r flag=%r", value, lit, multi)
    return "ok"


# --- harness ---------------------------------------------------------------------------------------
def make_harness(params: Dict[str, Any]):
    kind = params["kind"]
    if kind == "string":
        unit = params["unit"]
        max_len = params["max_len"]
        dom = STRING_UNITS[unit][2]

        first = params.get("first")
        stripped_only = "without_enclosing" in unit

        def harness(text: str) -> Any:
            assume(len(text) <= max_len)
            if first == "empty":
                assume(len(text) == 0)
            elif first is not None:
                assume(len(text) > 0)
                o0 = ord(text[0])
                lo, hi = FIRST_CLASSES[first]
                assume(lo <= o0 <= hi)
            for c in text:
                o = ord(c)
                assume(not (0xD800 <= o <= 0xDFFF))
                if dom is not None:
                    assume(dom(o))
            if stripped_only:
                # documented precondition of the result type Stripped (callers: see C02 for text pieces of f-strings)
                assume(len(text) == 0 or (text[0] not in " \t\n" and text[-1] not in " \t\n"))
            return check_string(unit, text)

        return harness
    if kind == "wchar":
        def harness_w(c: str) -> Any:
            assume(len(c) == 1)
            return check_wchar(c)

        return harness_w
    if kind == "bytes":
        unit = params["unit"]
        n = params["n"]

        def harness_b(b0: int, pos: int) -> Any:
            assume(0 <= b0 <= 255)
            assume(0 <= pos < max(n, 1))
            vals = [(i * 37 + 11) % 256 for i in range(n)]
            if n > 0:
                vals[pos] = b0
            return check_bytes(unit, bytes(vals))

        return harness_b
    raise AssertionError(kind)


FIRST_CLASSES = {"lt32": (0, 31), "ascii": (32, 127), "latin1": (128, 255), "bmp": (256, 0xFFFF),
                 "astral": (0x10000, 0x10FFFF)}


def shards(tier: str) -> List[Dict[str, Any]]:
    max_len, budget = (2, 200) if tier == "quick" else (3, 2400)
    out = []
    for u in STRING_UNITS:
        for first in ["empty"] + list(FIRST_CLASSES):
            if u == "cpp.string_literal" and first in ("latin1", "bmp", "astral"):
                continue
            out.append({"name": f"{u},len<={max_len},first={first}",
                        "params": {"kind": "string", "unit": u, "max_len": max_len, "first": first},
                        "budget_s": budget, "per_path_timeout": 40})
    out.append({"name": "cpp.wchar_literal", "params": {"kind": "wchar"}, "budget_s": budget})
    lens = (0, 1, 8, 9) if tier == "quick" else (0, 1, 7, 8, 9, 16, 17)
    for u in BYTES_UNITS:
        for n in lens:
            out.append({"name": f"{u},n={n}", "params": {"kind": "bytes", "unit": u, "n": n}, "budget_s": budget})
    return out


def describe(tier: str) -> Dict[str, Any]:
    s = shards(tier)
    return {
        "functions": ["aas_core_codegen.python.common.string_literal", "aas_core_codegen.python.common.bytes_literal",
                      "aas_core_codegen.cpp.common.wstring_literal", "aas_core_codegen.cpp.common.string_literal",
                      "aas_core_codegen.cpp.common.wchar_literal", "aas_core_codegen.cpp.common.bytes_literal",
                      "aas_core_codegen.csharp.common.string_literal",
                      "aas_core_codegen.java.common.string_literal",
                      "aas_core_codegen.typescript.common.string_literal", "aas_core_codegen.typescript.common.bytes_literal",
                      "aas_core_codegen.golang.common.string_literal", "aas_core_codegen.golang.common.bytes_literal",
                      ],
        "bounds": f"text: symbolic str over all Unicode scalar values (surrogates excluded), len <= {s[0]['params']['max_len']} "
                  "per unit (pairs matter: escape followed by a hex digit, '$' followed by '{'); wchar: any single code "
                  "point incl. surrogates; bytes: lengths in the shard list with one symbolic byte at a symbolic position",
        "outside": "longer texts (all escaping is per character with at most one character of look-ahead/behind, so "
                   "pairs cover the interaction); C++ trigraphs (removed in C++17) and source/execution character set "
                   "of the C++ build; lone surrogates in strings; float literals",
        "stubs": [f"{n}: dict -> linear equality scan (a real dict hashes, i.e. realizes, the symbolic key)" for n in _STUBBED]
                 + ["format(int, 'x'/'02x'/'04x'/'08x') kept symbolic by the sx format patch (self-checked against the builtin)"],
        "assumptions": ["oracle = spec-derived literal readers in vf/oracles/literals.py (Python, C++11, C# 6, Java 11, "
                        "ECMAScript 2019, Go); Python/C++/Java/JS readers are cross-validated against eval/g++/javac/node "
                        "by vf/oracles/validate_literals.py; the C# and Go readers rest on the specification text only "
                        "(no compiler in the sandbox)"],
        "rule": "one shard per literal function and option set; symbolic text",
    }
