"""C11 -- the generated JSON Schema is valid and never rejects valid data; (shared with C12: it enforces inferred constraints)."""
from __future__ import annotations

import json
from typing import Any, Dict, List, Optional, Tuple

from aas_core_codegen import infer_for_schema, intermediate, naming, specific_implementations
from aas_core_codegen.common import Stripped
from aas_core_codegen.jsonschema import main as jsonschema_main
from aas_core_codegen.python import naming as python_naming

from vf.common import assume, fail, symbolic
from vf.oracles import jsonschema_mini
from vf.sdk import Pool
from vf.sym import regex_match
import harness.C08 as c08

PROPERTY = "C11"
LEVEL = "translation_validation"

SCHEMA_BASE = '{"$schema": "https://json-schema.org/draft/2019-09/schema", "title": "Verif", "type": "object"}'

_SCHEMAS: Dict[str, Any] = {}


def schema_of(model: str) -> Tuple[Dict[str, Any], Any]:
    """(schema as emitted by the REAL generator, inferred constraints by class)."""
    if model not in _SCHEMAS:
        sdk = c08.sdk_of(model)
        spec = {specific_implementations.ImplementationKey("schema_base.json"): Stripped(SCHEMA_BASE)}
        code, errors = jsonschema_main.generate(symbol_table=sdk.symbol_table, spec_impls=spec,
                                                fix_pattern=jsonschema_main.fix_pattern_for_utf16)
        assert errors is None, errors
        by_class, errors = infer_for_schema.infer_constraints_by_class(symbol_table=sdk.symbol_table)
        assert errors is None, errors
        _SCHEMAS[model] = (json.loads(code), by_class)
    return _SCHEMAS[model]


def _broken_by_value(value: Any, ta: Any, constraints: Any, where: str, out: List[str]) -> None:
    if constraints is None:
        return
    primitive = intermediate.try_primitive_type(ta)
    lc = constraints.len_constraint
    if lc is not None and (primitive is intermediate.PrimitiveType.STR or isinstance(ta, intermediate.ListTypeAnnotation)):
        n = len(value)
        if lc.min_value is not None and n < lc.min_value:
            out.append(f"{where}: length below {lc.min_value}")
        if lc.max_value is not None and n > lc.max_value:
            out.append(f"{where}: length above {lc.max_value}")
    if primitive is intermediate.PrimitiveType.STR and constraints.patterns:
        for pc in constraints.patterns:
            if not regex_match(pc.pattern, value, "fullmatch"):
                out.append(f"{where}: pattern {pc.pattern}")


def broken_inferred(sdk: Any, by_class: Any, instance: Any, where: str, out: List[str]) -> None:
    """Inferred length / pattern / list-size constraints (own class, ancestors, constrained primitives) which the value breaks."""
    cls = None
    for c in sdk.concrete_classes():
        if type(instance) is sdk.sdk_class(c):
            cls = c
    assert cls is not None
    for prop in cls.properties:
        value = getattr(instance, python_naming.property_name(prop.name))
        if value is None:
            continue
        ta = intermediate.beneath_optional(prop.type_annotation)
        here = f"{where}.{prop.name}"
        _broken_by_value(value, ta, by_class[cls].get(ta, None), here, out)
        if isinstance(ta, intermediate.ListTypeAnnotation):
            # excluded by design: tightenings which a DESCENDANT applies to the items of an inherited list
            owner = prop.specified_for
            item_constraints = by_class[owner].get(ta.items, None)
            for i, item in enumerate(value):
                _broken_by_value(item, ta.items, item_constraints, f"{here}[{i}]", out)
                if hasattr(item, "descend_once"):
                    broken_inferred(sdk, by_class, item, f"{here}[{i}]", out)
        elif hasattr(value, "descend_once"):
            broken_inferred(sdk, by_class, value, here, out)


def check(model: str, cls_name: str, pool: Pool, depth: int, list_len: int, focus: Any, direction: str) -> str:
    sdk = c08.sdk_of(model)
    schema, by_class = schema_of(model)
    cls = sdk.symbol_table.must_find_class(cls_name)
    instance, _ = sdk.build(cls, pool, depth, list_len, symbolic_props=focus)
    pool.finish()
    assume(not pool.exhausted)
    for s in pool.strs[: pool.used[0]]:
        # '$' before a trailing line break: Python's re accepts, ECMA-262 does not -- outside the claim (see describe)
        assume(not s.endswith("\n"))
    document = sdk.jsonization.to_jsonable(instance)
    definition = naming.json_model_type(cls.name)
    accepted = jsonschema_mini.accepts(schema, {"$ref": f"#/definitions/{definition}"}, document)
    if direction == "never-rejects-valid":
        valid = True
        for _ in sdk.verification.verify(instance):
            valid = False
            break
        if valid and not accepted:
            # which kind of value makes the schema reject?  (re-validate with the byte arrays removed)
            suffix = ""
            if _byte_array_keys(cls) and _accepts_ignoring(schema, definition, document, _byte_array_keys(cls)):
                suffix = ":bytes-length"
            fail("schema:rejects-a-document-of-an-instance-which-satisfies-all-invariants" + suffix, "%s: %r", cls_name,
                 lambda: json.dumps(document, default=repr))
        return ("valid" if valid else "invalid") + ("+accepted" if accepted else "+rejected")
    broken: List[str] = []
    broken_inferred(sdk, by_class, instance, cls_name, broken)
    if broken and accepted:
        fail("schema:accepts-a-document-which-breaks-an-inferred-constraint", "%s: %r breaks %r", cls_name,
             lambda: json.dumps(document, default=repr), broken)
    return ("broken" if broken else "conforming") + ("+accepted" if accepted else "+rejected")


def _byte_array_keys(cls: Any) -> List[str]:
    out = []
    for prop in cls.properties:
        if intermediate.try_primitive_type(intermediate.beneath_optional(prop.type_annotation)) is intermediate.PrimitiveType.BYTEARRAY:
            out.append(naming.json_property(prop.name))
    return out


def _accepts_ignoring(schema: Any, definition: str, document: Any, keys: List[str]) -> bool:
    """Would the document be accepted if the length keywords did not apply to the given (byte array) properties?"""
    import copy
    relaxed = copy.deepcopy(schema)

    def strip(node: Any) -> None:
        if isinstance(node, dict):
            props = node.get("properties")
            if isinstance(props, dict):
                for k in keys:
                    if k in props and isinstance(props[k], dict):
                        props[k].pop("minLength", None)
                        props[k].pop("maxLength", None)
            for v in node.values():
                strip(v)
        elif isinstance(node, list):
            for v in node:
                strip(v)

    strip(relaxed)
    return jsonschema_mini.accepts(relaxed, {"$ref": f"#/definitions/{definition}"}, document)


def make_harness(params: Dict[str, Any], direction: str = "never-rejects-valid"):
    model = params["model"]
    c08.sdk_of(model)
    schema_of(model)

    def harness(s0: str, s1: str, s2: str, s3: str, s4: str, s5: str, i0: int, i1: int, i2: int, i3: int, i4: int,
                i5: int, b0: bool, b1: bool, b2: bool, b3: bool, b4: bool, b5: bool, b6: bool, b7: bool) -> Any:
        pool = Pool([s0, s1, s2, s3, s4, s5], [i0, i1, i2, i3, i4, i5], [b0, b1, b2, b3, b4, b5, b6, b7], params["max_str"])
        return check(model, params["name"], pool, params["depth"], params["list_len"], params.get("focus"), direction)

    return harness


def shards(tier: str) -> List[Dict[str, Any]]:
    out = []
    for model in c08.MODELS:
        if model.startswith(c08.NOT_FOR_SERIALIZATION) or not c08.MODELS[model].exists():
            continue
        for kind, name, focus in c08._targets(model):
            if kind != "class":
                continue
            list_len = 2 if tier == "quick" else 3
            variants = [(list_len, False)]
            if c08._has_polymorphic_list(model, name, focus):
                variants = [(1, False), (list_len, True)]
            max_str = 2 if tier == "quick" else 3
            if focus is None and _nested_class_props(model, name) >= 2:
                max_str = 1  # several nested instances multiply paths: strings of at most one character there
            for ll, exploratory in variants:
                out.append({"name": f"{model}:{name}" + (":focus=" + "+".join(focus) if focus else "") +
                                    (f":lists<={ll}" if len(variants) > 1 else "") + (f":str<={max_str}" if max_str == 1 else ""),
                            "params": {"model": model, "name": name, "focus": focus, "max_str": max_str,
                                       "depth": 2, "list_len": ll},
                            "budget_s": (60 if exploratory else 240) if tier == "quick" else 1500,
                            **({"exploratory": True} if exploratory else {}), "per_path_timeout": 60})
    return out


def _nested_class_props(model: str, cls_name: str) -> int:
    st = c08._TABLES[model]
    n = 0
    for prop in st.must_find_class(cls_name).properties:
        ta = intermediate.beneath_optional(prop.type_annotation)
        if isinstance(ta, intermediate.ListTypeAnnotation):
            ta = ta.items
        if isinstance(ta, intermediate.OurTypeAnnotation) and isinstance(
                ta.our_type, (intermediate.AbstractClass, intermediate.ConcreteClass)):
            n += 1
    return n


def _all_refs(node: Any, out: List[str]) -> None:
    if isinstance(node, dict):
        for k, v in node.items():
            if k == "$ref" and isinstance(v, str):
                out.append(v)
            _all_refs(v, out)
    elif isinstance(node, list):
        for v in node:
            _all_refs(v, out)


def extra_checks(tier: str) -> Dict[str, Any]:
    """Concrete: the schema conforms to its declared draft, every $ref resolves, the mini validator agrees with the library."""
    import jsonschema

    violations: List[Dict[str, Any]] = []
    errors: List[str] = []
    n = 0
    for model in c08.MODELS:
        if model.startswith(c08.NOT_FOR_SERIALIZATION) or not c08.MODELS[model].exists():
            continue
        schema, _ = schema_of(model)
        n += 1
        try:
            jsonschema.validators.validator_for(schema).check_schema(schema)
        except Exception as e:  # noqa
            violations.append({"key": "schema:does-not-conform-to-its-declared-draft", "msg": f"{model}: {e}"[:600], "args": model})
        refs: List[str] = []
        _all_refs(schema, refs)
        for ref in refs:
            if not ref.startswith("#/definitions/") or ref[len("#/definitions/"):] not in schema.get("definitions", {}):
                violations.append({"key": "schema:dangling-ref", "msg": f"{model}: {ref}", "args": model})
        # battery for the validator itself: documents of default instances and single mutations of them
        sdk = c08.sdk_of(model)
        for cls in sdk.concrete_classes():
            instance, _src = sdk.build(cls, Pool([], [], []), 1, 0, symbolic_props=[])
            document = sdk.jsonization.to_jsonable(instance)
            definition = naming.json_model_type(cls.name)
            battery = [document]
            for key in list(document.keys()):
                for wrong in (1, "x" * 5, [], None, {"modelType": "Nope"}):
                    mutated = json.loads(json.dumps(document))
                    mutated[key] = wrong
                    battery.append(mutated)
                dropped = json.loads(json.dumps(document))
                del dropped[key]
                battery.append(dropped)
            for doc in battery:
                try:
                    jsonschema_mini.cross_check(schema, definition, doc)
                except AssertionError as e:
                    errors.append(f"oracle disagrees with the jsonschema library: {e}"[:500])
                except jsonschema_mini.Unsupported as e:
                    errors.append(f"schema of {model} uses vocabulary the oracle does not know: {e}")
                n += 1
    return {"violations": violations, "errors": errors[:5],
            "evidence": {"schemas_checked_against_their_draft": len([m for m in c08.MODELS if not m.startswith(c08.NOT_FOR_SERIALIZATION)]),
                         "validator_cross_checks_against_the_jsonschema_library": n, "evaluations": n, "distinct_nontrivial": n}}


def describe(tier: str) -> Dict[str, Any]:
    return {
        "functions": ["aas_core_codegen.jsonschema.main.generate", "aas_core_codegen.jsonschema.main._define_properties",
                      "aas_core_codegen.jsonschema.main._translate_constraints", "aas_core_codegen.jsonschema.main.fix_pattern_for_utf16",
                      "aas_core_codegen.infer_for_schema._inline.infer_constraints_by_class",
                      "aas_core_codegen.python.lib._generate_jsonization.generate"],
        "bounds": "corpus and symbolic instance values as in C08 (per-invariant focus for large classes); the schema is the one the REAL "
                  "jsonschema generator emits for the model; the document is what the generated SDK's to_jsonable produces",
        "outside": "string values which end in a line break ('$' matches before a trailing U+000A in Python but not in ECMA-262: such "
                   "values satisfy the Python invariant and fail the schema -- a dialect difference noted in DESIGN.md, not claimed "
                   "either way); byte-array lengths; models outside the corpus; schema keywords the generator does not emit",
        "stubs": [],
        "assumptions": ["the validator is vf/oracles/jsonschema_mini.py (the emitted vocabulary only; unknown keywords raise); it is "
                        "cross-checked against the jsonschema library on a battery of concrete documents on every run",
                        "pattern keywords are matched on UTF-16 code units through the NFA encoding of vf.sym.regex_match_units"],
        "rule": "one shard per (model, class[, invariant focus])",
    }
