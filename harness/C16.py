"""C16 -- regex front end (parse/retree) is total and faithful."""
from __future__ import annotations

import re
from typing import Any, Dict, List, Optional

from aas_core_codegen.parse import retree
from aas_core_codegen.parse.retree import _parse as retree_parse

from vf.common import Violation, assume, fail, symbolic, realize, untraced, witness, ScanMapping

# stub: the renderer looks characters up in class-level dicts; with a symbolic character a real dict realizes the key
for _name in ("_ESCAPING_IN_CHARACTER_LITERALS", "_ESCAPING_IN_RANGE"):
    _d = getattr(retree.Renderer, _name)
    if isinstance(_d, dict):
        setattr(retree.Renderer, _name, ScanMapping(_d))

PROPERTY = "C16"
LEVEL = "model_checking"


class _ReProxy:
    """Stands in for the ``re`` module inside retree/_parse.py: ``fullmatch`` of a constant pattern on a symbolic piece of the
    input (the hexadecimal digits of an escape) becomes ONE solver term instead of a fork per character class."""

    def __getattr__(self, name: str) -> Any:
        return getattr(re, name)

    @staticmethod
    def fullmatch(pattern: Any, text: Any, flags: int = 0) -> Any:
        from vf.sym import regex_match
        if not symbolic() or flags != 0 or not isinstance(pattern, str):
            return re.fullmatch(pattern, text, flags)
        if regex_match(pattern, text, "fullmatch"):
            return True
        return None


if symbolic():
    retree_parse.re = _ReProxy()  # type: ignore

# warm-up for icontract
retree.parse(["^a[b-c]{1,2}(x|y)*$"])
_r, _e = retree.parse(["a{"])
retree.render_pointer(_e.cursor)
retree.render(retree.parse(["^a[b-c]{1,2}(x|y)*?$"])[0])


def same_tree(a: Any, b: Any) -> bool:
    if type(a) is not type(b):
        return False
    if isinstance(a, retree.Regex):
        return same_tree(a.union, b.union)
    if isinstance(a, retree.UnionExpr):
        return len(a.uniates) == len(b.uniates) and all(same_tree(x, y) for x, y in zip(a.uniates, b.uniates))
    if isinstance(a, retree.Concatenation):
        return len(a.concatenants) == len(b.concatenants) and all(
            same_tree(x, y) for x, y in zip(a.concatenants, b.concatenants))
    if isinstance(a, retree.Term):
        if (a.quantifier is None) != (b.quantifier is None):
            return False
        if a.quantifier is not None and not same_tree(a.quantifier, b.quantifier):
            return False
        return same_tree(a.value, b.value)
    if isinstance(a, retree.Quantifier):
        return a.non_greedy == b.non_greedy and a.minimum == b.minimum and a.maximum == b.maximum
    if isinstance(a, retree.Group):
        return same_tree(a.union, b.union)
    if isinstance(a, retree.Symbol):
        return a.kind is b.kind
    if isinstance(a, retree.Char):
        return a.character == b.character and a.explicitly_encoded == b.explicitly_encoded
    if isinstance(a, retree.CharSet):
        return a.complementing == b.complementing and len(a.ranges) == len(b.ranges) and all(
            same_tree(x, y) for x, y in zip(a.ranges, b.ranges))
    if isinstance(a, retree.Range):
        if (a.end is None) != (b.end is None):
            return False
        return same_tree(a.start, b.start) and (a.end is None or same_tree(a.end, b.end))
    return False


def _faithful(s: str, r: str, max_len: int) -> None:
    """Concrete strings: Python must read both, and they must denote the same language (decided by rx)."""
    from vf import rx
    try:
        re.compile(s)
    except re.error:
        # Not a Python regex at all: nothing to be faithful to (the front end compiles patterns with ``re`` first).
        return
    except RecursionError:
        return
    try:
        re.compile(r)
    except re.error as e:
        fail("faithful:rendering-is-not-a-python-regex", "pattern %r rendered as %r: %s", s, r, e)
    try:
        a, b = rx.parse_python(s), rx.parse_python(r)
    except rx.Unsupported:
        return
    res = rx.compare(a, b, max_len, mode="match")
    if res["verdict"] == "refuted":
        w = "".join(chr(c) for c in res["witness"])
        got_s = re.match(s, w) is not None
        got_r = re.match(r, w) is not None
        if got_s != got_r:
            cause = ":whitespace-in-quantifier" if re.search(r"\{[0-9 \t,]*[ \t][0-9 \t,]*\}", s) else ""
            fail("faithful:rendering-matches-differently" + cause, "pattern %r rendered as %r: on %r original=%s rendering=%s",
                 s, r, w, got_s, got_r)
        fail("harness:rx-witness-not-confirmed-by-re", "pattern %r vs %r on %r", s, r, w)
    if res["verdict"] == "unknown":
        fail("harness:rx-unknown", "%r %r", s, r)
    # the tree itself must mean what Python means by the pattern
    tree, err = retree.parse([s])
    if tree is not None:
        res = rx.compare(a, rx.from_retree(tree), max_len, mode="match")
        if res["verdict"] == "refuted":
            w = "".join(chr(c) for c in res["witness"])
            cause = ":whitespace-in-quantifier" if re.search(r"\{[0-9 \t,]*[ \t][0-9 \t,]*\}", s) else ""
            fail("faithful:tree-differs-from-python-reading" + cause, "pattern %r: on %r python=%s", s, w, res["a_accepts"])


def check(s: str, rx_len: int) -> str:
    regex, error = retree.parse([s])  # any exception is a violation (totality)
    if (regex is None) == (error is None):
        fail("total:not-exactly-one-of-regex-and-error")
    if error is not None:
        if not isinstance(error.message, str) or len(error.message) == 0:
            fail("total:empty-error-message")
        # the error must be positioned: render_pointer must work whenever its documented precondition holds
        if len(error.cursor.values) > 0 and not _has_line_breaks(s):
            regex_line, pointer_line = retree.render_pointer(error.cursor)
            if len(pointer_line) > len(regex_line) + 1:
                fail("total:pointer-outside-of-the-pattern", "%r -> %r / %r", s, regex_line, pointer_line)
        return "rejected"
    rendered = retree.render(regex)
    for piece in rendered:
        if not isinstance(piece, str):
            fail("roundtrip:non-string-rendered")
    r = "".join(rendered)
    regex2, error2 = retree.parse([r])
    if error2 is not None:
        fail("roundtrip:rendering-does-not-parse", "pattern %r rendered as %r: %s", s, r, error2.message)
    if not same_tree(regex, regex2):
        fail("roundtrip:reparsed-tree-differs", "pattern %r rendered as %r", s, r)
    s_c, r_c = witness(s, r)  # one member of the path class goes to the language comparison
    untraced(_faithful, s_c, r_c, rx_len)
    return "accepted"


def _has_line_breaks(s: str) -> bool:
    # render_pointer's write_text requires no \n \f \v \r; such patterns cannot be pointed into (documented)
    for c in s:
        if c == "\n" or c == "\r" or c == "\f" or c == "\v":
            return True
    return False


FIRST = {
    "backslash": lambda c: c == "\\",
    "bracket": lambda c: c == "[",
    "paren": lambda c: c == "(" or c == ")" or c == "|",
    "brace": lambda c: c == "{" or c == "}",
    "anchor": lambda c: c == "^" or c == "$" or c == ".",
    "quant": lambda c: c == "*" or c == "+" or c == "?",
}


SECOND = dict(FIRST)


def _in_class(name: str, c: str) -> Any:
    if name == "other":
        for f in FIRST.values():
            if f(c):
                return False
        return True
    return FIRST[name](c)


# ---- tree level: render(tree) must re-parse to the SAME tree, for trees with symbolic characters ------------------------
TREE_SKELETONS = ["char", "char-char", "set1", "set-range", "set-char-range", "set-range-char", "cset-range", "group"]
TREE_QUANTIFIERS = {"none": None, "star": (0, None), "opt": (0, 1), "three": (3, 3), "two-five": (2, 5), "min-two": (2, None)}


def _producible(position: str) -> List[int]:
    """ASCII characters which the REAL parser can deliver as a not explicitly encoded Char at the given position."""
    out = []
    for c in range(128):
        ch = chr(c)
        found = False
        for text in (ch, "\\" + ch):
            pattern = text if position == "literal" else "[" + text + "]"
            try:
                tree, err = retree.parse([pattern])
            except Exception:  # noqa (totality is the business of the text-level shards)
                continue
            if err is not None:
                continue
            concat = tree.union.uniates[0].concatenants if len(tree.union.uniates) == 1 else []
            if len(concat) != 1 or concat[0].quantifier is not None:
                continue
            value = concat[0].value
            if position == "literal":
                if isinstance(value, retree.Char) and value.character == ch and not value.explicitly_encoded:
                    found = True
            else:
                if isinstance(value, retree.CharSet) and not value.complementing and len(value.ranges) == 1 and \
                        value.ranges[0].end is None and value.ranges[0].start.character == ch and \
                        not value.ranges[0].start.explicitly_encoded:
                    found = True
        if found:
            out.append(c)
    return out


class _NotProducible:
    """Computed once per check run (512 calls of the real parser): ``prepare`` writes it beside the shard list, the workers read it."""

    def __init__(self) -> None:
        self._table: Optional[Dict[str, List[int]]] = None

    @staticmethod
    def _path() -> Optional[str]:
        import os
        shards_file = os.environ.get("VF_SHARDS_FILE")
        return os.path.join(os.path.dirname(shards_file), "c16_not_producible.json") if shards_file else None

    @staticmethod
    def compute() -> Dict[str, List[int]]:
        out = {}
        for pos in ("literal", "set"):
            producible = set(_producible(pos))
            out[pos] = [c for c in range(128) if c not in producible]
        return out

    def __getitem__(self, position: str) -> List[int]:
        if self._table is None:
            import json
            import os
            path = self._path()
            if path and os.path.exists(path):
                with open(path) as f:
                    self._table = json.load(f)
            else:
                self._table = self.compute()
        return self._table[position]


_NOT_PRODUCIBLE = _NotProducible()


def prepare(tier: str, workdir: str) -> None:
    import json
    import os
    with open(os.path.join(workdir, "c16_not_producible.json"), "w") as f:
        json.dump(_NotProducible.compute(), f)


def _assume_producible(cp: Any, encoded: Any, position: str) -> None:
    """A not explicitly encoded character must be one the parser can deliver raw or through a backslash escape."""
    from vf.common import assume as _assume
    ok: Any = True
    for c in _NOT_PRODUCIBLE[position]:
        ok = ok & (cp != c)
    _assume(encoded | ok)


def build_tree(skeleton: str, quant: str, cps: List[Any], enc: List[Any]) -> Any:
    """A tree of the given shape whose characters (code points, 'explicitly encoded' flags) are symbolic."""
    from vf.common import assume as _assume
    for c in cps:
        _assume(0 <= c <= 0x10FFFF)
        _assume(not (0xD800 <= c <= 0xDFFF))
    chars = [retree.Char(chr(c), explicitly_encoded=(True if e else False)) for c, e in zip(cps, enc)]
    v = TREE_QUANTIFIERS[quant]
    q = None if v is None else retree.Quantifier(non_greedy=False, minimum=v[0], maximum=v[1])
    T = retree.Term
    a, b, c = chars[0], chars[1], chars[2]
    positions = {"char": "l", "char-char": "ll", "group": "lll"}.get(skeleton, "sss")
    for cp, e, pos in zip(cps, enc, positions):
        _assume_producible(cp, True if e else False, "literal" if pos == "l" else "set")
    if skeleton == "char":
        terms = [T(a, q)]
    elif skeleton == "char-char":
        terms = [T(a, q), T(b, None)]
    elif skeleton == "set1":
        terms = [T(retree.CharSet(False, [retree.Range(a, None)]), q)]
    elif skeleton == "set-range":
        _assume(cps[0] <= cps[1])
        terms = [T(retree.CharSet(False, [retree.Range(a, b)]), q)]
    elif skeleton == "set-char-range":
        _assume(cps[1] <= cps[2])
        _assume((cps[0] < cps[1]) | (cps[0] > cps[2]))
        terms = [T(retree.CharSet(False, [retree.Range(a, None), retree.Range(b, c)]), q)]
    elif skeleton == "set-range-char":
        _assume(cps[0] <= cps[1])
        _assume((cps[2] < cps[0]) | (cps[2] > cps[1]))
        terms = [T(retree.CharSet(False, [retree.Range(a, b), retree.Range(c, None)]), q)]
    elif skeleton == "cset-range":
        _assume(cps[0] <= cps[1])
        _assume(cps[1] < 0x10000)  # the parser admits only BMP characters in complemented sets
        terms = [T(retree.CharSet(True, [retree.Range(a, b)]), q)]
    elif skeleton == "group":
        u = retree.UnionExpr([retree.Concatenation([T(a, None)]), retree.Concatenation([T(b, None), T(c, None)])])
        terms = [T(retree.Group(u), q)]
    else:
        raise AssertionError(skeleton)
    return retree.Regex(retree.UnionExpr([retree.Concatenation(terms)]))


def check_tree(skeleton: str, quant: str, cps: List[Any], enc: List[Any]) -> str:
    tree = build_tree(skeleton, quant, cps, enc)
    rendered = retree.render(tree)
    for piece in rendered:
        if not isinstance(piece, str):
            fail("roundtrip:non-string-rendered")
    r = "".join(rendered)
    regex2, error2 = retree.parse([r])
    if error2 is not None:
        fail("roundtrip:rendering-of-a-tree-does-not-parse:" + skeleton, "cps=%r enc=%r rendered %r: %s", cps, enc, r,
             lambda: error2.message)
    if not same_tree(tree, regex2):
        fail("roundtrip:rendering-of-a-tree-parses-to-another-tree:" + skeleton, "cps=%r enc=%r rendered %r -> %r", cps, enc, r,
             lambda: "".join(retree.render(regex2)))
    if not symbolic():
        # concrete replay: the rendering must also be a valid Python regular expression
        try:
            re.compile(r)
        except re.error as e:
            fail("faithful:rendering-of-a-tree-is-not-a-python-regex:" + skeleton, "%r: %s", r, e)
    return "ok"


def make_harness(params: Dict[str, Any]):
    if params.get("kind") == "tree":
        skeleton, quant = params["skeleton"], params["quant"]
        n_chars = {"char": 1, "char-char": 2, "set1": 1, "set-range": 2, "cset-range": 2}.get(skeleton, 3)
        fixed_enc = params.get("enc")

        def tree_harness(c0: int, c1: int, c2: int, e0: bool, e1: bool, e2: bool) -> Any:
            cps, enc = [c0, c1, c2], [e0, e1, e2]
            for i in range(3):
                if i >= n_chars:
                    assume(cps[i] == 97 and not enc[i])
                elif fixed_enc is not None:
                    assume(enc[i] == fixed_enc[i])
            return check_tree(skeleton, quant, cps, enc)

        return tree_harness
    if params.get("kind") == "quantifier-body":
        body_len, closed = params["body_len"], params["closed"]

        def quantifier_harness(body: str) -> Any:
            assume(len(body) == body_len)
            return check("a{" + body + ("}" if closed else ""), params["rx_len"])

        return quantifier_harness
    max_len = params["max_len"]
    min_len = params.get("min_len", 0)
    first = params["first"]
    second = params.get("second")
    rx_len = params["rx_len"]

    def harness(s: str) -> Any:
        assume(min_len <= len(s) <= max_len)
        if first == "empty":
            assume(len(s) == 0)
        else:
            assume(len(s) > 0)
            assume(_in_class(first, s[0]))
            if second is not None:
                assume(len(s) > 1)
                assume(_in_class(second, s[1]))
        return check(s, rx_len)

    return harness


def shards(tier: str) -> List[Dict[str, Any]]:
    classes = ["other"] + list(FIRST)
    if tier == "quick":
        core_len, budget, deep_len, deep_budget, rx_len = 2, 200, 3, 100, 4
    else:
        core_len, budget, deep_len, deep_budget, rx_len = 3, 3000, 4, 1500, 6
    out = []
    if True:
        out.append({"name": f"len<={core_len},first=empty", "params": {"max_len": core_len, "first": "empty", "rx_len": rx_len},
                    "budget_s": budget, "per_path_timeout": 40})
        for f in classes:
            out.append({"name": f"len=1,first={f}", "params": {"max_len": 1, "min_len": 1, "first": f, "rx_len": rx_len},
                        "budget_s": budget, "per_path_timeout": 40})
            for g in classes:
                out.append({"name": f"2<=len<={core_len},first={f},second={g}",
                            "params": {"max_len": core_len, "min_len": 2, "first": f, "second": g, "rx_len": rx_len},
                            "budget_s": budget, "per_path_timeout": 40})
    # quantifier bodies: the text 'a{' + body [+ '}'] for every body of a few arbitrary characters
    for body_len in range(0, 3 if tier == "quick" else 5):
        for closed in (True, False):
            out.append({"name": f"quantifier-body:len={body_len},{'closed' if closed else 'open'}",
                        "params": {"kind": "quantifier-body", "body_len": body_len, "closed": closed, "max_len": 0,
                                   "rx_len": rx_len + 2},
                        "budget_s": budget if body_len < 2 or tier != "quick" else 60, "per_path_timeout": 40,
                        **({"exploratory": True} if body_len >= 2 else {})})
    # tree level: symbolic characters in fixed tree shapes (render -> parse must give the same tree)
    for skeleton in TREE_SKELETONS:
        n_chars = {"char": 1, "char-char": 2, "set1": 1, "set-range": 2, "cset-range": 2}.get(skeleton, 3)
        quants = (["none", "two-five"] if n_chars < 3 else ["none"]) if tier == "quick" else list(TREE_QUANTIFIERS)
        for quant in quants:
            import itertools as _it
            for enc in _it.product((False, True), repeat=n_chars):
                out.append({"name": f"tree:{skeleton},{quant},encoded={''.join('1' if e else '0' for e in enc)}",
                            "params": {"kind": "tree", "skeleton": skeleton, "quant": quant,
                                       "enc": list(enc) + [False] * (3 - n_chars), "max_len": 0, "rx_len": 0},
                            "budget_s": (150 if n_chars < 3 else 40) if tier == "quick" else 2400, "per_path_timeout": 40,
                            **({"exploratory": True} if (tier == "quick" and n_chars >= 3) else {})})
    # deeper, budgeted exploration (not part of the exhaustive claim; thorough tier only)
    for f in (classes if tier != "quick" else []):
        for g in classes:
            out.append({"name": f"len={deep_len},first={f},second={g} (exploratory)", "exploratory": True,
                        "params": {"max_len": deep_len, "min_len": deep_len, "first": f, "second": g, "rx_len": rx_len},
                        "budget_s": deep_budget, "per_path_timeout": 40})
    out.sort(key=lambda shard: -shard["budget_s"] if not shard.get("exploratory") else 0)  # the long ones start first
    return out


def extra_checks(tier: str) -> Dict[str, Any]:
    """Corpus: every pattern fixture of the repository goes through the same check, concretely."""
    from vf.common import REPO
    from vf import rx
    pats: List[str] = []
    for p in sorted((REPO / "dev/test_data/parse_retree").glob("**/pattern.regex")) + sorted(
            (REPO / "dev/test_data/parse_retree").glob("**/source.regex")):
        pats.append(p.read_text(encoding="utf-8"))
    for p in sorted((REPO / "dev/test_data/intermediate_revm").glob("**/pattern.regex")):
        pats.append(p.read_text(encoding="utf-8"))
    violations = []
    n = 0
    for pat in pats:
        n += 1
        try:
            check(pat, 6 if tier == "quick" else 8)
        except Violation as v:
            if not any(x["key"] == v.key for x in violations):
                violations.append({"key": v.key, "msg": v.msg, "args": {"pattern": pat}})
    return {"violations": violations, "evidence": {"corpus_patterns_checked": n, "rx_queries": rx.STATS["queries"],
                                                   "rx_solver_s": round(rx.STATS["solver_s"], 2)}}


def describe(tier: str) -> Dict[str, Any]:
    s = shards(tier)
    return {
        "functions": ["aas_core_codegen.parse.retree._parse.parse", "aas_core_codegen.parse.retree._parse.render_pointer",
                      "aas_core_codegen.parse.retree._render.render", "aas_core_codegen.parse.retree._parse.Cursor"],
        "bounds": f"tree level: {len(TREE_SKELETONS)} tree shapes (literal, two literals, sets with single characters and ranges, complemented set, "
                  "group with alternatives) x quantifiers, every character a symbolic code point over all scalar values with a "
                  "symbolic/explicit 'explicitly encoded' flag: render -> parse must reproduce the tree. Text level: "
                  f"pattern: symbolic str over all of Unicode, exhaustively claimed for len <= {s[0]['params']['max_len']} (one shard "
                  f"per class of the first (and second) character) plus (thorough tier) budgeted exploratory shards one character longer; language comparison (rx, z3 QF_LIA) on strings of length <= {s[0]['params']['rx_len']} "
                  "over all code points",
        "outside": "longer patterns; FormattedValue pieces (f-string patterns) are exercised in C08; faithfulness is "
                   "decided for ONE realized witness per path class of the parser (and for every corpus pattern), not for "
                   "all members of the class",
        "stubs": ["re.fullmatch inside retree/_parse.py (checks of hexadecimal digits) -> NFA reachability term of the same pattern; "
                  "int(text, 16) and format(n, '04x') -> division-free symbolic arithmetic (vf/sx.py)",
                  "retree.Renderer._ESCAPING_IN_CHARACTER_LITERALS/_ESCAPING_IN_RANGE: dict -> linear equality scan"],
        "assumptions": ["tree level: a character which is not explicitly encoded is one which the real parser delivers for the raw or the "
                        "backslash-escaped character at that position (computed from the real parser for ASCII at import: "
                        f"excluded as literal {[chr(c) for c in _NOT_PRODUCIBLE['literal']]!r}, in a set "
                        f"{[chr(c) for c in _NOT_PRODUCIBLE['set']]!r}); str.encode('unicode_escape') of one character is a model in vf/sx.py",
                        "faithfulness is only asserted for patterns that Python's re.compile accepts (the front end "
                        "compiles every pattern with re before parsing it)",
                        "render_pointer is only required for patterns without \\n \\r \\f \\v (its documented precondition)"],
        "rule": "symbolic pattern string; every path through Cursor/_parse_*/render is enumerated; per accepted path the "
                "realized pattern and its rendering are compared as languages by the rx engine",
    }
