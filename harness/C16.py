"""C16 -- regex front end (parse/retree) is total and faithful."""
from __future__ import annotations

import re
from typing import Any, Dict, List, Optional

from aas_core_codegen.parse import retree
from aas_core_codegen.parse.retree import _parse as retree_parse

from vf.common import Violation, assume, fail, symbolic, realize, untraced, ScanMapping

# stub: the renderer looks characters up in class-level dicts; with a symbolic character a real dict realizes the key
for _name in ("_ESCAPING_IN_CHARACTER_LITERALS", "_ESCAPING_IN_RANGE"):
    _d = getattr(retree.Renderer, _name)
    if isinstance(_d, dict):
        setattr(retree.Renderer, _name, ScanMapping(_d))

PROPERTY = "C16"
LEVEL = "model_checking"

# warm-up for icontract
retree.parse(["^a[b-c]{1,2}(x|y)*$"])
_r, _e = retree.parse(["a{"])
retree.render_pointer(_e.cursor)
retree.render(retree.parse(["^a[b-c]{1,2}(x|y)*?$"])[0])


def same_tree(a: Any, b: Any) -> bool:
    if type(a) is not type(b):
        return False
    if isinstance(a, retree.Regex):
        return same_tree(a.union, b.union)
    if isinstance(a, retree.UnionExpr):
        return len(a.uniates) == len(b.uniates) and all(same_tree(x, y) for x, y in zip(a.uniates, b.uniates))
    if isinstance(a, retree.Concatenation):
        return len(a.concatenants) == len(b.concatenants) and all(
            same_tree(x, y) for x, y in zip(a.concatenants, b.concatenants))
    if isinstance(a, retree.Term):
        if (a.quantifier is None) != (b.quantifier is None):
            return False
        if a.quantifier is not None and not same_tree(a.quantifier, b.quantifier):
            return False
        return same_tree(a.value, b.value)
    if isinstance(a, retree.Quantifier):
        return a.non_greedy == b.non_greedy and a.minimum == b.minimum and a.maximum == b.maximum
    if isinstance(a, retree.Group):
        return same_tree(a.union, b.union)
    if isinstance(a, retree.Symbol):
        return a.kind is b.kind
    if isinstance(a, retree.Char):
        return a.character == b.character and a.explicitly_encoded == b.explicitly_encoded
    if isinstance(a, retree.CharSet):
        return a.complementing == b.complementing and len(a.ranges) == len(b.ranges) and all(
            same_tree(x, y) for x, y in zip(a.ranges, b.ranges))
    if isinstance(a, retree.Range):
        if (a.end is None) != (b.end is None):
            return False
        return same_tree(a.start, b.start) and (a.end is None or same_tree(a.end, b.end))
    return False


def _faithful(s: str, r: str, max_len: int) -> None:
    """Concrete strings: Python must read both, and they must denote the same language (decided by rx)."""
    from vf import rx
    try:
        re.compile(s)
    except re.error:
        # Not a Python regex at all: nothing to be faithful to (the front end compiles patterns with ``re`` first).
        return
    except RecursionError:
        return
    try:
        re.compile(r)
    except re.error as e:
        fail("faithful:rendering-is-not-a-python-regex", "pattern %r rendered as %r: %s", s, r, e)
    try:
        a, b = rx.parse_python(s), rx.parse_python(r)
    except rx.Unsupported:
        return
    res = rx.compare(a, b, max_len, mode="match")
    if res["verdict"] == "refuted":
        w = "".join(chr(c) for c in res["witness"])
        got_s = re.match(s, w) is not None
        got_r = re.match(r, w) is not None
        if got_s != got_r:
            fail("faithful:rendering-matches-differently", "pattern %r rendered as %r: on %r original=%s rendering=%s",
                 s, r, w, got_s, got_r)
        fail("harness:rx-witness-not-confirmed-by-re", "pattern %r vs %r on %r", s, r, w)
    if res["verdict"] == "unknown":
        fail("harness:rx-unknown", "%r %r", s, r)
    # the tree itself must mean what Python means by the pattern
    tree, err = retree.parse([s])
    if tree is not None:
        res = rx.compare(a, rx.from_retree(tree), max_len, mode="match")
        if res["verdict"] == "refuted":
            w = "".join(chr(c) for c in res["witness"])
            fail("faithful:tree-differs-from-python-reading", "pattern %r: on %r python=%s", s, w, res["a_accepts"])


def check(s: str, rx_len: int) -> str:
    regex, error = retree.parse([s])  # any exception is a violation (totality)
    if (regex is None) == (error is None):
        fail("total:not-exactly-one-of-regex-and-error")
    if error is not None:
        if not isinstance(error.message, str) or len(error.message) == 0:
            fail("total:empty-error-message")
        # the error must be positioned: render_pointer must work whenever its documented precondition holds
        if len(error.cursor.values) > 0 and not _has_line_breaks(s):
            regex_line, pointer_line = retree.render_pointer(error.cursor)
            if len(pointer_line) > len(regex_line) + 1:
                fail("total:pointer-outside-of-the-pattern", "%r -> %r / %r", s, regex_line, pointer_line)
        return "rejected"
    rendered = retree.render(regex)
    for piece in rendered:
        if not isinstance(piece, str):
            fail("roundtrip:non-string-rendered")
    r = "".join(rendered)
    regex2, error2 = retree.parse([r])
    if error2 is not None:
        fail("roundtrip:rendering-does-not-parse", "pattern %r rendered as %r: %s", s, r, error2.message)
    if not same_tree(regex, regex2):
        fail("roundtrip:reparsed-tree-differs", "pattern %r rendered as %r", s, r)
    s_c, r_c = realize(s), realize(r)
    untraced(_faithful, s_c, r_c, rx_len)
    return "accepted"


def _has_line_breaks(s: str) -> bool:
    # render_pointer's write_text requires no \n \f \v \r; such patterns cannot be pointed into (documented)
    for c in s:
        if c == "\n" or c == "\r" or c == "\f" or c == "\v":
            return True
    return False


FIRST = {
    "backslash": lambda c: c == "\\",
    "bracket": lambda c: c == "[",
    "paren": lambda c: c == "(" or c == ")" or c == "|",
    "brace": lambda c: c == "{" or c == "}",
    "anchor": lambda c: c == "^" or c == "$" or c == ".",
    "quant": lambda c: c == "*" or c == "+" or c == "?",
}


SECOND = dict(FIRST)


def _in_class(name: str, c: str) -> Any:
    if name == "other":
        for f in FIRST.values():
            if f(c):
                return False
        return True
    return FIRST[name](c)


def make_harness(params: Dict[str, Any]):
    max_len = params["max_len"]
    min_len = params.get("min_len", 0)
    first = params["first"]
    second = params.get("second")
    rx_len = params["rx_len"]

    def harness(s: str) -> Any:
        assume(min_len <= len(s) <= max_len)
        if first == "empty":
            assume(len(s) == 0)
        else:
            assume(len(s) > 0)
            assume(_in_class(first, s[0]))
            if second is not None:
                assume(len(s) > 1)
                assume(_in_class(second, s[1]))
        return check(s, rx_len)

    return harness


def shards(tier: str) -> List[Dict[str, Any]]:
    classes = ["other"] + list(FIRST)
    if tier == "quick":
        core_len, budget, deep_len, deep_budget, rx_len = 2, 200, 3, 100, 4
    else:
        core_len, budget, deep_len, deep_budget, rx_len = 3, 3000, 4, 1500, 6
    out = []
    if core_len <= 2:
        for f in ["empty"] + classes:
            out.append({"name": f"len<={core_len},first={f}",
                        "params": {"max_len": core_len, "first": f, "rx_len": rx_len},
                        "budget_s": budget, "per_path_timeout": 40})
    else:
        out.append({"name": f"len<={core_len},first=empty", "params": {"max_len": core_len, "first": "empty", "rx_len": rx_len},
                    "budget_s": budget, "per_path_timeout": 40})
        for f in classes:
            out.append({"name": f"len=1,first={f}", "params": {"max_len": 1, "min_len": 1, "first": f, "rx_len": rx_len},
                        "budget_s": budget, "per_path_timeout": 40})
            for g in classes:
                out.append({"name": f"2<=len<={core_len},first={f},second={g}",
                            "params": {"max_len": core_len, "min_len": 2, "first": f, "second": g, "rx_len": rx_len},
                            "budget_s": budget, "per_path_timeout": 40})
    # deeper, budgeted exploration (not part of the exhaustive claim)
    for f in classes:
        for g in classes:
            out.append({"name": f"len={deep_len},first={f},second={g} (exploratory)", "exploratory": True,
                        "params": {"max_len": deep_len, "min_len": deep_len, "first": f, "second": g, "rx_len": rx_len},
                        "budget_s": deep_budget, "per_path_timeout": 40})
    return out


def extra_checks(tier: str) -> Dict[str, Any]:
    """Corpus: every pattern fixture of the repository goes through the same check, concretely."""
    from vf.common import REPO
    from vf import rx
    pats: List[str] = []
    for p in sorted((REPO / "dev/test_data/parse_retree").glob("**/pattern.regex")) + sorted(
            (REPO / "dev/test_data/parse_retree").glob("**/source.regex")):
        pats.append(p.read_text(encoding="utf-8"))
    for p in sorted((REPO / "dev/test_data/intermediate_revm").glob("**/pattern.regex")):
        pats.append(p.read_text(encoding="utf-8"))
    violations = []
    n = 0
    for pat in pats:
        n += 1
        try:
            check(pat, 6 if tier == "quick" else 8)
        except Violation as v:
            if not any(x["key"] == v.key for x in violations):
                violations.append({"key": v.key, "msg": v.msg, "args": {"pattern": pat}})
    return {"violations": violations, "evidence": {"corpus_patterns_checked": n, "rx_queries": rx.STATS["queries"],
                                                   "rx_solver_s": round(rx.STATS["solver_s"], 2)}}


def describe(tier: str) -> Dict[str, Any]:
    s = shards(tier)
    return {
        "functions": ["aas_core_codegen.parse.retree._parse.parse", "aas_core_codegen.parse.retree._parse.render_pointer",
                      "aas_core_codegen.parse.retree._render.render", "aas_core_codegen.parse.retree._parse.Cursor"],
        "bounds": f"pattern: symbolic str over all of Unicode, exhaustively claimed for len <= {s[0]['params']['max_len']} (one shard "
                  f"per class of the first (and second) character) plus budgeted exploratory shards one character longer; language comparison (rx, z3 QF_LIA) on strings of length <= {s[0]['params']['rx_len']} "
                  "over all code points",
        "outside": "longer patterns; FormattedValue pieces (f-string patterns) are exercised in C08; faithfulness is "
                   "decided for ONE realized witness per path class of the parser (and for every corpus pattern), not for "
                   "all members of the class",
        "stubs": ["retree.Renderer._ESCAPING_IN_CHARACTER_LITERALS/_ESCAPING_IN_RANGE: dict -> linear equality scan"],
        "assumptions": ["faithfulness is only asserted for patterns that Python's re.compile accepts (the front end "
                        "compiles every pattern with re before parsing it)",
                        "render_pointer is only required for patterns without \\n \\r \\f \\v (its documented precondition)"],
        "rule": "symbolic pattern string; every path through Cursor/_parse_*/render is enumerated; per accepted path the "
                "realized pattern and its rendering are compared as languages by the rx engine",
    }
