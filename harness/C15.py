"""C15 -- schema constraint inference (infer_for_schema) equals the conjunction of the recognised invariants."""
from __future__ import annotations

from typing import Any, Dict, List, Optional, Tuple

from aas_core_codegen import infer_for_schema, intermediate
from aas_core_codegen.parse import tree as parse_tree

from vf.common import Violation, assume, fail, symbolic
from vf.models import must_load

PROPERTY = "C15"
LEVEL = "model_checking"

OPS = [parse_tree.Comparator.LT, parse_tree.Comparator.LE, parse_tree.Comparator.EQ, parse_tree.Comparator.GT,
       parse_tree.Comparator.GE, parse_tree.Comparator.NE]
OP_NAMES = ["<", "<=", "==", ">", ">=", "!="]

# Every template declares invariants with descriptions "slot<i>" whose body contains exactly one comparison
# ``len(<x>) <op> <const>``; the harness overwrites op, operand order and the constant of these comparisons
# AFTER the real front end has built the intermediate representation (IR-level "holes").  An invariant in an
# unrecognised form ("noise") is present in every class and must never influence the result.

TEMPLATES: Dict[str, Dict[str, Any]] = {
    # name: text, probes = [(class name, property name or None for constrained primitives, [slot ids in scope])]
    "own2": {
        "text": '''
@invariant(lambda self: len(self.x) > 1, "slot0")
@invariant(lambda self: len(self.x) > 1, "slot1")
@invariant(lambda self: len(self.x) + 1 > len(self.y), "noise")
class Something:
    x: str
    y: str

    def __init__(self, x: str, y: str) -> None:
        self.x = x
        self.y = y
''',
        "probes": [("Something", "x", [0, 1])],
    },
    "own3": {
        "text": '''
@invariant(lambda self: len(self.x) > 1, "slot0")
@invariant(lambda self: len(self.x) > 1, "slot1")
@invariant(lambda self: len(self.x) > 1, "slot2")
@invariant(lambda self: len(self.y) != 3, "noise")
class Something:
    x: str
    y: str

    def __init__(self, x: str, y: str) -> None:
        self.x = x
        self.y = y
''',
        "probes": [("Something", "x", [0, 1, 2])],
    },
    "optional": {
        "text": '''
@invariant(lambda self: self.x is None or len(self.x) > 1, "slot0")
@invariant(lambda self: not (self.x is not None) or len(self.x) > 1, "slot1")
@invariant(lambda self: not (self.x is not None) or (len(self.x) > 1 and len(self.x) > 2), "noise")
class Something:
    x: Optional[str]

    def __init__(self, x: Optional[str] = None) -> None:
        self.x = x
''',
        "probes": [("Something", "x", [0, 1])],
    },
    "list": {
        "text": '''
class Item:
    pass


@invariant(lambda self: len(self.x) > 1, "slot0")
@invariant(lambda self: self.y is None or len(self.y) > 1, "slot1")
class Something:
    x: List[Item]
    y: Optional[List[Item]]

    def __init__(self, x: List[Item], y: Optional[List[Item]] = None) -> None:
        self.x = x
        self.y = y
''',
        "probes": [("Something", "x", [0]), ("Something", "y", [1])],
    },
    "chain": {
        "text": '''
@invariant(lambda self: len(self.x) > 1, "slot0")
class Grand_parent:
    x: str

    def __init__(self, x: str) -> None:
        self.x = x


@invariant(lambda self: len(self.x) > 1, "slot1")
@invariant(lambda self: len(self.x) != 5, "noise")
class Parent(Grand_parent):
    def __init__(self, x: str) -> None:
        Grand_parent.__init__(self, x)


@invariant(lambda self: len(self.x) > 1, "slot2")
class Child(Parent):
    def __init__(self, x: str) -> None:
        Parent.__init__(self, x)
''',
        "probes": [("Grand_parent", "x", [0]), ("Parent", "x", [0, 1]), ("Child", "x", [0, 1, 2])],
    },
    "constrained_primitive": {
        "text": '''
@invariant(lambda self: len(self) > 1, "slot0")
class Base_text(str):
    pass


@invariant(lambda self: len(self) > 1, "slot1")
class Derived_text(Base_text):
    pass


@invariant(lambda self: len(self.x) > 1, "slot2")
class Something:
    x: Derived_text
    y: Base_text

    def __init__(self, x: Derived_text, y: Base_text) -> None:
        self.x = x
        self.y = y
''',
        "probes": [("Something", "x", [0, 1, 2]), ("Something", "y", [0])],
    },
    # a three-level chain of constrained primitives declared DESCENDANT FIRST (the language admits any order of declarations);
    # the middle one has no constraint of its own
    "reversed_primitive_chain": {
        "text": '''
@invariant(lambda self: len(self) > 1, "slot1")
class Derived_text(Middle_text):
    pass


class Middle_text(Base_text):
    pass


@invariant(lambda self: len(self) > 1, "slot0")
class Base_text(str):
    pass


@invariant(lambda self: len(self.x) > 1, "slot2")
class Something:
    x: Derived_text
    y: Middle_text

    def __init__(self, x: Derived_text, y: Middle_text) -> None:
        self.x = x
        self.y = y
''',
        "probes": [("Something", "x", [0, 1, 2]), ("Something", "y", [0])],
    },
    # invariants in UNRECOGNISED form which contain a length comparison: nothing may be inferred from them, whatever
    # the comparator and the constant are
    "unrecognised_a": {
        "text": '''
@invariant(lambda self: len(self.x) > 1 or self.flag, "slot0")
@invariant(lambda self: not (len(self.x) > 1), "slot1")
@invariant(lambda self: self.y is None or len(self.y) > 1 or self.flag, "slot2")
class Something:
    x: str
    y: Optional[str]
    flag: bool

    def __init__(self, x: str, flag: bool, y: Optional[str] = None) -> None:
        self.x = x
        self.flag = flag
        self.y = y
''',
        "probes": [("Something", "x", []), ("Something", "y", [])],
    },
    "unrecognised_b": {
        "text": '''
@invariant(lambda self: not (self.y is not None) or (len(self.y) > 1 or self.flag), "slot0")
@invariant(lambda self: not self.flag or len(self.x) > 1, "slot1")
@invariant(lambda self: not (self.y is not None and self.flag) or len(self.y) > 1, "slot2")
class Something:
    x: str
    y: Optional[str]
    flag: bool

    def __init__(self, x: str, flag: bool, y: Optional[str] = None) -> None:
        self.x = x
        self.flag = flag
        self.y = y
''',
        "probes": [("Something", "x", []), ("Something", "y", [])],
    },
    "unrecognised_c": {
        "text": '''
@invariant(lambda self: self.y is None or self.flag or len(self.y) > 1, "slot0")
@invariant(lambda self: not (self.z is not None) or len(self.x) > 1, "slot1")
@invariant(lambda self: self.z is None or (self.y is None or len(self.y) > 1), "slot2")
class Something:
    x: str
    y: Optional[str]
    z: Optional[str]
    flag: bool

    def __init__(self, x: str, flag: bool, y: Optional[str] = None, z: Optional[str] = None) -> None:
        self.x = x
        self.flag = flag
        self.y = y
        self.z = z
''',
        "probes": [("Something", "x", []), ("Something", "y", []), ("Something", "z", [])],
    },
}

_LOADED: Dict[str, Any] = {}


def _find_comparison(node: Any) -> Optional[parse_tree.Comparison]:
    """The first ``len(..) op const`` comparison inside ``node`` (depth first, any node kind)."""
    if isinstance(node, parse_tree.Comparison) and isinstance(node.left, parse_tree.FunctionCall):
        return node
    if isinstance(node, parse_tree.Node):
        for key, value in vars(node).items():
            if key in ("original_node",):
                continue
            if isinstance(value, parse_tree.Node):
                r = _find_comparison(value)
                if r is not None:
                    return r
            elif isinstance(value, (list, tuple)):
                for item in value:
                    r = _find_comparison(item)
                    if r is not None:
                        return r
    return None


def load(name: str) -> Any:
    if name in _LOADED:
        return _LOADED[name]
    from vf.models import wrap
    st = must_load(wrap(TEMPLATES[name]["text"]))
    slots: Dict[int, parse_tree.Comparison] = {}
    for our_type in st.our_types:
        if not isinstance(our_type, (intermediate.Class, intermediate.ConstrainedPrimitive)):
            continue
        for inv in our_type.invariants:
            if inv.specified_for is our_type and inv.description.startswith("slot"):
                cmp_node = _find_comparison(inv.body)
                assert cmp_node is not None
                # canonical orientation: len(...) on the left
                assert isinstance(cmp_node.left, parse_tree.FunctionCall)
                slots[int(inv.description[4:])] = cmp_node
    originals = {i: (c.left, c.right) for i, c in slots.items()}
    _LOADED[name] = (st, slots, originals)
    # warm-up for icontract
    infer_for_schema.infer_constraints_by_class(symbol_table=st)
    return _LOADED[name]


BIG = 1000


def interval(op: int, len_left: bool, c: Any) -> Tuple[Any, Any]:
    """[lo, hi] of the lengths for which ``len <op> c`` (or ``c <op> len``) holds; '!=' is ignored by design."""
    if not len_left:
        op = {0: 3, 1: 4, 2: 2, 3: 0, 4: 1, 5: 5}[op]  # c < len  ==  len > c, ...
    if op == 0:
        return (-BIG, c - 1)
    if op == 1:
        return (-BIG, c)
    if op == 2:
        return (c, c)
    if op == 3:
        return (c + 1, BIG)
    if op == 4:
        return (c, BIG)
    return (-BIG, BIG)


def conjunction(in_scope: List[int], ops: List[int], orders: List[bool], consts: List[Any]) -> Tuple[Any, Any]:
    """Interval of the lengths >= 0 admitted by all comparisons in scope (fork-free max/min)."""
    from vf.sym import ite
    lo: Any = 0
    hi: Any = BIG
    for i in in_scope:
        a, b = interval(ops[i], orders[i], consts[i])
        lo = ite(a >= lo, a, lo)
        hi = ite(b <= hi, b, hi)
    return lo, hi


def check(name: str, ops: List[int], orders: List[bool], consts: List[Any], n: Any) -> str:
    st, slots, originals = load(name)
    # --- write the holes
    for i, cmp_node in slots.items():
        len_call, const_node = originals[i]
        const_node.value = consts[i]
        cmp_node.op = OPS[ops[i]]
        if orders[i]:
            cmp_node.left, cmp_node.right = len_call, const_node
        else:
            cmp_node.left, cmp_node.right = const_node, len_call
    # --- the real inference
    by_class, errors = infer_for_schema.infer_constraints_by_class(symbol_table=st)
    if (by_class is None) == (errors is None):
        fail("inference:not-exactly-one-of-result-and-errors")
    any_unsat = False
    for cls_name, prop_name, in_scope in TEMPLATES[name]["probes"]:
        lo, hi = conjunction(in_scope, ops, orders, consts)
        if lo > hi:
            any_unsat = True
            if errors is None:
                fail("len:unsatisfiable-conjunction-not-reported", "%s.%s ops=%r len-left=%r consts=%r", cls_name,
                     prop_name, [OP_NAMES[o] for o in ops], orders, consts)
            continue
        if errors is not None:
            continue
        cls = st.must_find_class(cls_name)
        prop = cls.properties_by_name[prop_name]
        type_anno = intermediate.beneath_optional(prop.type_annotation)
        constraints = by_class[cls].get(type_anno, None)
        lc = constraints.len_constraint if constraints is not None else None
        admitted = True
        if lc is not None:
            if lc.min_value is not None and n < lc.min_value:
                admitted = False
            if lc.max_value is not None and n > lc.max_value:
                admitted = False
        expected = bool(lo <= n and n <= hi)
        if admitted != expected:
            fail("len:inferred-range-differs-from-the-conjunction",
                 "%s.%s ops=%r len-left=%r consts=%r: length %d admitted=%s but the invariants say %s (inferred %s)",
                 cls_name, prop_name, [OP_NAMES[o] for o in ops], orders, consts, n, admitted, expected, lc)
    if errors is not None and not any_unsat:
        fail("len:satisfiable-conjunction-reported-as-error", "ops=%r len-left=%r consts=%r errors=%r",
             [OP_NAMES[o] for o in ops], orders, consts, lambda: [e.message for e in errors])
    return "errors" if errors is not None else "inferred"


def make_harness(params: Dict[str, Any]):
    name = params["template"]
    nslots = params["slots"]
    fixed_ops = params["ops"]  # concrete operators per slot (sharding), None = symbolic
    fixed_orders = params.get("orders") or [None, None, None]

    def harness(o0: int, o1: int, o2: int, l0: bool, l1: bool, l2: bool, c0: int, c1: int, c2: int, n: int) -> Any:
        ops_in = [o0, o1, o2]
        ops: List[int] = []
        for i in range(3):
            if i >= nslots:
                assume(ops_in[i] == 0)
                ops.append(0)
            elif fixed_ops[i] is not None:
                assume(ops_in[i] == fixed_ops[i])
                ops.append(fixed_ops[i])
            else:
                chosen = -1
                for k in range(6):
                    if ops_in[i] == k:
                        chosen = k
                assume(chosen >= 0)
                ops.append(chosen)
        orders_in = [l0, l1, l2]
        orders: List[bool] = []
        for i in range(3):
            if i >= nslots:
                assume(orders_in[i])
                orders.append(True)
            elif fixed_orders[i] is not None:
                assume(orders_in[i] == fixed_orders[i])
                orders.append(fixed_orders[i])
            elif orders_in[i]:
                orders.append(True)
            else:
                orders.append(False)
        consts = [c0, c1, c2]
        for i in range(3):
            if i >= nslots:
                assume(consts[i] == 0)
            else:
                assume(-2 <= consts[i] <= 8)
        assume(0 <= n <= 10)
        return check(name, ops, orders, consts, n)

    return harness


SLOTS = {"unrecognised_a": 3, "unrecognised_b": 3, "unrecognised_c": 3, "own2": 2, "own3": 3, "optional": 2, "list": 2, "chain": 3, "constrained_primitive": 3,
         "reversed_primitive_chain": 3}


def shards(tier: str) -> List[Dict[str, Any]]:
    import itertools
    out = []
    budget = 120 if tier == "quick" else 900
    for name, k in SLOTS.items():
        if k == 2:
            combos = [list(t) + [None] for t in itertools.product(range(6), repeat=2)]
        elif tier == "quick" and (name.startswith("unrecognised") or name == "reversed_primitive_chain"):
            combos = [[0, 2, 4], [4, 0, 2], [2, 4, 0]]
        elif tier == "quick":
            # <, ==, >= : every comparator at every position, every pair of neighbours (9 of the 27 triples; all in thorough)
            combos = [[0, 0, 0], [2, 2, 2], [4, 4, 4], [0, 2, 4], [2, 4, 0], [4, 0, 2], [0, 4, 2], [2, 0, 4], [4, 2, 0]]
        else:
            combos = [list(t) for t in itertools.product(range(6), repeat=3)]
        for ops in combos:
            orders = None
            if k == 3 and tier == "quick":
                orders = [True, True, True] if name == "own3" else [None, True, True]
            out.append({"name": f"{name},ops=" + " ".join(OP_NAMES[o] for o in ops if o is not None)
                                + (",orders=" + "/".join("sym" if o is None else "len-left" for o in orders) if orders else ""),
                        "params": {"template": name, "slots": k, "ops": ops, "orders": orders},
                        "budget_s": budget * 2 if (tier == "quick" and k == 3 and not name.startswith("unrecognised")) else budget,
                        "per_path_timeout": 60,
                        # three equalities give the largest trees: under a budget in the quick tier, exhaustive in thorough
                        **({"exploratory": True} if (tier == "quick" and ops == [2, 2, 2] and name in ("own3", "chain")) else {})})
    weight = {"own3": 0, "chain": 1, "constrained_primitive": 1, "reversed_primitive_chain": 1}
    out.sort(key=lambda shard: weight.get(shard["params"]["template"], 2))  # the long ones start first
    return out


def describe(tier: str) -> Dict[str, Any]:
    return {
        "functions": ["aas_core_codegen.infer_for_schema._inline.infer_constraints_by_class",
                      "aas_core_codegen.infer_for_schema._len.len_constraints_from_invariants",
                      "aas_core_codegen.infer_for_schema._len.infer_len_constraint_of_self",
                      "aas_core_codegen.infer_for_schema._len._match_len_constraint_on_member_or_name",
                      "aas_core_codegen.infer_for_schema._len._reduce_constraints",
                      "aas_core_codegen.infer_for_schema._inline._merge_len_constraints",
                      "aas_core_codegen.infer_for_schema.match.try_conditional_on_prop",
                      "aas_core_codegen.infer_for_schema._types.LenConstraint"],
        "bounds": "10 template meta-models (2 and 3 invariants on one str property; Optional property with both guard forms; "
                  "list properties; grand-parent/parent/child chain; constrained-primitive chain used by a class; a three-level "
                  "chain of constrained primitives declared descendant first; three templates of unrecognised forms) loaded through "
                  "the REAL front end; per invariant slot: comparator in {<,<=,==,>,>=,!=}, operand order, constant in [-2, 8] "
                  "symbolic; probe length n in [0, 10] symbolic" + ("; quick tier: templates with three slots run 9 of the 27 comparator "
                  "triples over {<, ==, >=} (every comparator at every position)" if tier == "quick" else ""),
        "outside": "pattern and constant-set inference (their deciding code is dictionary bookkeeping over names/ids: see "
                   "DESIGN.md C15); constants outside [-2, 8]; more than 3 invariants per property; models outside the templates",
        "stubs": ["IR-level holes: operator, operand order and constant of the slot comparisons are overwritten in the "
                  "intermediate representation after the real front end ran on the template"],
        "assumptions": ["'!=' comparisons and the 'noise' invariants are the unrecognised forms and must be ignored",
                        "oracle: intersection of the intervals of the comparisons in scope over lengths >= 0"],
        "rule": "one shard per template and operator combination (quick: three-invariant templates with operators from "
                "{<, ==, >=}; thorough: all six); operand orders, constants and probe symbolic",
    }
