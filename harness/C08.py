"""C08 -- the generated Python verification implements the invariants of the meta-model exactly."""
from __future__ import annotations

import pathlib
from typing import Any, Dict, List, Optional, Tuple

from aas_core_codegen import intermediate
from aas_core_codegen.python import naming as python_naming

from vf.common import REPO, VERIF, assume, fail, symbolic
from vf.sdk import Pool, Sdk

PROPERTY = "C08"
LEVEL = "translation_validation"

MODELS: Dict[str, pathlib.Path] = {
    "basic": VERIF / "models" / "c08_basic.py",
    "hierarchy": VERIF / "models" / "c08_hierarchy.py",
    "bytes": VERIF / "models" / "c11_bytes.py",
    # a diamond whose root constrains a property and whose sides and bottom tighten it (length, pattern, set)
    "diamond": VERIF / "models" / "c02_diamond_tighten.py",
    # list properties of every shape (required / optional x primitive, bytes, constrained primitive, enumeration, class)
    "shapes": VERIF / "models" / "c29_shapes.py",
    # a chain of constrained primitives declared descendant first (the language admits any order of declarations)
    "reversed": VERIF / "models" / "c12_reversed_primitives.py",
    # a concrete class given as an implementation-specific snippet: of interest to the traversal check (C29) only
    "traversal-only:impl_specific": VERIF / "models" / "c29_impl_specific.py",
    # nesting of operators (parentheses in the transpiled expression): of interest to C08 only ("verification-only:")
    "verification-only:operators": VERIF / "models" / "c08_operators.py",
    # models which the front end may legitimately REJECT (then there is nothing to compare); if it accepts them, the
    # generated verification must still agree with Python
    "may-reject:filter": VERIF / "models" / "c08_filter.py",
}
for _p in sorted((REPO / "dev" / "test_data" / "common_meta_models").glob("*.py")):
    if "aas_core_meta" not in _p.name:
        MODELS["repo:" + _p.stem] = _p

# implementation-specific snippets which a model needs
SNIPPETS: Dict[str, pathlib.Path] = {"traversal-only:impl_specific": VERIF / "models" / "c29_impl_specific_snippets"}
# prefixes of the models which only some checks use
NOT_FOR_SERIALIZATION = ("may-reject:", "verification-only:", "traversal-only:")

_SDKS: Dict[str, Sdk] = {}


def sdk_of(model: str) -> Sdk:
    if model not in _SDKS:
        _SDKS[model] = Sdk(MODELS[model].read_text(encoding="utf-8"), snippets_from=SNIPPETS.get(model))
    return _SDKS[model]


def expected_errors(sdk: Sdk, cls: intermediate.ClassUnion, src: Any, prefix: str, out: List[Tuple[str, str]]) -> None:
    """(description, path) of every invariant which is false when evaluated as Python on the source-level instance."""
    for inv in sdk.source_invariants(cls):
        result = inv.condition(src)
        if not isinstance(result, bool):
            fail("source:invariant-does-not-yield-a-boolean", "%r", inv.description)
        if not result:
            out.append((inv.description, prefix))
    for prop in cls.properties:
        value = getattr(src, prop.name)
        if value is None:
            continue
        path = prefix + "." + python_naming.property_name(prop.name)
        _expected_for_value(sdk, intermediate.beneath_optional(prop.type_annotation), value, path, out)


def _expected_for_value(sdk: Sdk, ta: Any, value: Any, path: str, out: List[Tuple[str, str]]) -> None:
    if isinstance(ta, intermediate.OurTypeAnnotation):
        ot = ta.our_type
        if isinstance(ot, intermediate.ConstrainedPrimitive):
            for inv in sdk.source_invariants(ot):
                if not inv.condition(value):
                    out.append((inv.description, path))
        elif isinstance(ot, (intermediate.AbstractClass, intermediate.ConcreteClass)):
            concrete = sdk.symbol_table.must_find_class(type(value).__name__)
            expected_errors(sdk, concrete, value, path, out)
    elif isinstance(ta, intermediate.ListTypeAnnotation):
        for i, item in enumerate(value):
            _expected_for_value(sdk, ta.items, item, f"{path}[{i}]", out)


def check_class(model: str, cls_name: str, pool: Pool, depth: int, list_len: int, focus: Optional[List[str]] = None) -> str:
    sdk = sdk_of(model)
    cls = sdk.symbol_table.must_find_class(cls_name)
    assert isinstance(cls, intermediate.ConcreteClass)
    instance, src = sdk.build(cls, pool, depth, list_len, symbolic_props=focus)
    pool.finish()
    assume(not pool.exhausted)

    expected: List[Tuple[str, str]] = []
    src_exc: Optional[BaseException] = None
    try:
        expected_errors(sdk, cls, src, "", expected)
    except (IndexError, ZeroDivisionError) as e:  # what "evaluating the invariant in Python" may legitimately raise
        src_exc = e

    got: List[Tuple[str, str]] = []
    sdk_exc: Optional[BaseException] = None
    try:
        for error in sdk.verification.verify(instance):
            got.append((error.cause, str(error.path)))
    except Exception as e:  # noqa
        sdk_exc = e

    if src_exc is not None:
        if sdk_exc is None:
            # the property only forbids raising where Python does not raise; the converse is not demanded
            return "python-raises"
        return "both-raise"
    if sdk_exc is not None:
        fail("verify:raises-although-the-invariants-evaluate-in-python", "%r; instance=%r", sdk_exc, lambda: vars(instance))
    if sorted(got) != sorted(expected):
        missing = [e for e in expected if e not in got]
        surplus = [g for g in got if g not in expected]
        what = "misses-a-violated-invariant" if missing else "reports-an-invariant-that-holds"
        if not missing and not surplus:
            what = "reports-an-error-twice"
        fail("verify:" + what, "class %s: missing=%r surplus=%r instance=%r", cls_name, missing, surplus,
             lambda: _show(instance))
    return "errors" if got else "valid"


def _show(x: Any, depth: int = 0) -> Any:
    if hasattr(x, "__dict__") and depth < 3 and not isinstance(x, type):
        return {k: _show(v, depth + 1) for k, v in vars(x).items()}
    if isinstance(x, list):
        return [_show(v, depth + 1) for v in x]
    return repr(x)


def check_function(model: str, fn_name: str, pool: Pool) -> str:
    sdk = sdk_of(model)
    fn = sdk.symbol_table.verification_functions_by_name[fn_name]
    args_sdk, args_src = [], []
    for arg in fn.arguments:
        x, y = sdk.value(arg.type_annotation, pool, 1, 2)
        args_sdk.append(x)
        args_src.append(y)
    pool.finish()
    assume(not pool.exhausted)
    generated = getattr(sdk.verification, python_naming.function_name(fn.name))
    source_fn = sdk.source[fn.name]
    src_exc = sdk_exc = None
    want = got = None
    try:
        want = source_fn(*args_src)
    except (IndexError, ZeroDivisionError) as e:
        src_exc = e
    try:
        got = generated(*args_sdk)
    except Exception as e:  # noqa
        sdk_exc = e
    if src_exc is not None:
        return "python-raises"
    if sdk_exc is not None:
        fail("function:generated-function-raises", "%s: %r args=%r", fn_name, sdk_exc, args_sdk)
    if bool(want) != bool(got):
        fail("function:result-differs-from-the-python-function", "%s(%r): generated %r, python %r", fn_name, args_sdk, got, want)
    return "true" if got else "false"


def make_harness(params: Dict[str, Any]):
    model = params["model"]
    max_str = params["max_str"]
    sdk_of(model)

    def harness(s0: str, s1: str, s2: str, s3: str, s4: str, s5: str, i0: int, i1: int, i2: int, i3: int, i4: int,
                i5: int, b0: bool, b1: bool, b2: bool, b3: bool, b4: bool, b5: bool, b6: bool, b7: bool) -> Any:
        pool = Pool([s0, s1, s2, s3, s4, s5], [i0, i1, i2, i3, i4, i5], [b0, b1, b2, b3, b4, b5, b6, b7], max_str)
        if params["kind"] == "class":
            return check_class(model, params["name"], pool, params["depth"], params["list_len"], params.get("focus"))
        return check_function(model, params["name"], pool)

    return harness


_TABLES: Dict[str, Any] = {}


def _targets(model: str) -> List[Tuple[str, str, Any]]:
    """Concrete classes and understood verification functions of a model (front end only: no SDK is generated here)."""
    if model not in _TABLES:
        from vf.models import front_end, must_load
        text = MODELS[model].read_text(encoding="utf-8")
        if model.startswith("may-reject:"):
            _TABLES[model] = front_end(text)[0]
        else:
            _TABLES[model] = must_load(text)
    st = _TABLES[model]
    if st is None:
        return []
    out: List[Tuple[str, str, Any]] = []
    for c in st.classes:
        if not isinstance(c, intermediate.ConcreteClass):
            continue
        if len(c.invariants) + len(c.properties) <= 4:
            out.append(("class", c.name, None))  # small class: everything symbolic at once
            continue
        # large class: one shard per invariant (the properties it reads are symbolic, the rest fixed) and one per property
        focuses: List[List[str]] = []
        for inv in c.invariants:
            names = sorted(_self_members(inv.body))
            if names and names not in focuses:
                focuses.append(names)
        for prop in c.properties:
            if [prop.name] not in focuses:
                focuses.append([prop.name])
        for f in focuses:
            out.append(("class", c.name, f))
    for fn in st.verification_functions:
        if isinstance(fn, (intermediate.PatternVerification, intermediate.TranspilableVerification)):
            out.append(("function", fn.name, None))
    return out


def _has_polymorphic_list(model: str, cls_name: str, focus: Any) -> bool:
    st = _TABLES[model]
    cls = st.must_find_class(cls_name)
    for prop in cls.properties:
        if focus is not None and prop.name not in focus:
            continue
        ta = intermediate.beneath_optional(prop.type_annotation)
        if isinstance(ta, intermediate.ListTypeAnnotation) and isinstance(ta.items, intermediate.OurTypeAnnotation):
            ot = ta.items.our_type
            if isinstance(ot, (intermediate.AbstractClass, intermediate.ConcreteClass)) and len(ot.concrete_descendants) >= 1:
                return True
    return False


def _self_members(node: Any) -> set:
    """Names of the properties ``self.<name>`` read by an invariant body."""
    from aas_core_codegen.parse import tree as parse_tree
    found = set()
    if isinstance(node, parse_tree.Member) and isinstance(node.instance, parse_tree.Name) and node.instance.identifier == "self":
        found.add(str(node.name))
    if isinstance(node, parse_tree.Node):
        for key, value in vars(node).items():
            if key == "original_node":
                continue
            if isinstance(value, parse_tree.Node):
                found |= _self_members(value)
            elif isinstance(value, (list, tuple)):
                for item in value:
                    found |= _self_members(item)
    return found


def shards(tier: str) -> List[Dict[str, Any]]:
    out = []
    for model in MODELS:
        if not MODELS[model].exists() or model.startswith("traversal-only:"):
            continue
        for kind, name, focus in _targets(model):
            list_len = 2 if tier == "quick" else 3
            variants = [(list_len, False)]
            if kind == "class" and _has_polymorphic_list(model, name, focus):
                # a list of instances of several possible classes multiplies paths: the exhaustive claim is made for
                # lists of at most one item, longer lists are explored under a budget
                variants = [(1, False), (list_len, True)]
            for ll, exploratory in variants:
                out.append({"name": f"{model}:{kind}:{name}" + (":focus=" + "+".join(focus) if focus else "") +
                                    (f":lists<={ll}" if len(variants) > 1 else ""),
                            "params": {"model": model, "kind": kind, "name": name, "focus": focus,
                                       "max_str": 2 if tier == "quick" else 3, "depth": 2, "list_len": ll},
                            "budget_s": (60 if exploratory else 240) if tier == "quick" else 1500,
                            **({"exploratory": True} if exploratory else {}), "per_path_timeout": 60})
    return out


def describe(tier: str) -> Dict[str, Any]:
    return {
        "functions": ["aas_core_codegen.python.lib._generate_verification.generate",
                      "aas_core_codegen.python.transpilation.Transpiler",
                      "aas_core_codegen.python.lib._generate_types.generate",
                      "aas_core_codegen.intermediate.pattern_verification.try_to_understand",
                      "aas_core_codegen.common.wrap_text_into_lines"],
        "bounds": "models: /verif/models/c08_*.py (comparisons, len, is None, implication, and/or/not, any/all over lists and "
                  "ranges, constant-set membership incl. superset_of, pattern and transpilable verification functions, f-string "
                  "patterns, nested and inherited invariants, constrained primitives alone / optional / in lists) and the "
                  "repository's common meta-models except aas_core_meta.v3; per concrete class one instance with ALL property "
                  "values symbolic: str <= 2 (3) code points, int in [-4, 10], bool, enum literal, optional present/absent, "
                  "lists <= 2 (3) items, nested instances to depth 2 (lists inside nested instances <= 1 item); classes with more than 4 invariants+properties are checked "
                  "per invariant: the properties that invariant reads are symbolic, all others are fixed at a default value (and once per property)",
        "outside": "aas_core_meta.v3 (its SDK has hundreds of classes; only the corpus above); floats other than multiples of 0.5 "
                   "in [-1, 1]; byte arrays other than up to two 0xff bytes; deeper nesting",
        "stubs": [],
        "assumptions": ["reference semantics: the meta-model source itself is exec'd (imports replaced by shims for DBC, invariant, "
                        "Enum, match = re.match, constant_set, markers) and its lambdas / functions are evaluated by CPython on the "
                        "same symbolic values",
                        "errors are compared as multisets of (description, path)"],
        "rule": "one shard per (model, concrete class) and per (model, verification function)",
    }
