"""C01 -- the meta-model front end never crashes (arity / shape families of the constructs it admits, and value holes)."""
from __future__ import annotations

import io
import pathlib
import tempfile
from typing import Any, Dict, List, Optional, Tuple

from vf.common import assume, fail, untraced, exception_key

PROPERTY = "C01"
LEVEL = "model_checking"

HEAD = '''"""Meta-model for verification."""
from enum import Enum
from re import match
from typing import List, Optional, Set

from icontract import invariant, DBC, ensure, require

from aas_core_meta.marker import (
    abstract,
    serialization,
    verification,
    constant_set,
    implementation_specific,
    non_mutating,
)


class Some_enum(Enum):
    """Represent an enumeration."""

    Some_literal = "SOME"
    Another_literal = "ANOTHER"


Small_set: Set[str] = constant_set(values=["a"], description="A small set.")


@invariant(lambda self: len(self) > 0, "Base text is not empty")
class Base_text(str, DBC):
    """Represent a text."""


class Base_number(int, DBC):
    """Represent a number."""

'''

TAIL = '''

__version__ = "V0"
__xml_namespace__ = "https://example.invalid/verif"
'''

CLASS = '''
{decorators}class Something({bases}):
    """{class_doc}"""

    text: {annotation}
    """{prop_doc}"""

    count: Optional[int]
    """Count"""

    def __init__(self, text: {annotation}{ctor_extra}, count: Optional[int] = {default}) -> None:
        self.text = text
        self.count = count
'''

# ---- argument vocabularies ----------------------------------------------------------------------------------------
SET_ARGS = ['["a", "b"]', '"Some description."', '[Small_set]', 'values=["a"]', 'description="Some description."',
            'superset_of=[Small_set]', '[]', 'None', '3', '[Some_enum.Some_literal]', 'values=[1, "a"]', 'superset_of=[Nonexistent]',
            'unknown_keyword=1', '["a", "a"]', 'values=[["a"]]', '*["a"]', '**{"values": ["a"]}']
CONST_ARGS = ['"some value"', '3', '1.5', 'True', 'b"xy"', 'bytearray(b"xy")', '"Some description."', 'value="v"', 'value=3',
              'description="Some description."', 'None', '[]', 'unknown_keyword=1', '-1', '1 + 1', 'f"x{1}"', '*[1]']
INVARIANT_ARGS = ['lambda self: len(self.text) > 0', '"Some description."', 'lambda self: True', 'lambda: True', 'lambda self, other: True',
                  'description="Some description."', 'condition=lambda self: len(self.text) > 0', '3', 'None', 'len',
                  'lambda self: len(self.text)', 'enabled=True', 'lambda self: self.text == "x"', '"Another description."',
                  'lambda self: any()', 'lambda self: all(1)', 'lambda self: all(x for x in range(1, 2, 3))', 'lambda self: len()',
                  'lambda self: len(self.text, self.text) > 0', 'lambda self: match(self.text)', 'lambda self: self.text[0][0] == "a"',
                  'lambda self: (yield)', 'lambda self: [x for x in self.text]', 'lambda self: self.text if self.count else self.text',
                  'lambda self: not', 'lambda self: self.text in Small_set in Small_set',
                  'lambda self: all(c == "a" for c in self.text for d in self.text)', 'lambda self: range(0, 1)']
SERIALIZATION_ARGS = ['with_model_type=True', 'with_model_type=False', 'True', 'with_model_type=3', 'unknown=1', 'None',
                      'with_model_type=True, with_model_type=False']
ANNOTATIONS = ['str', 'List[str]', 'Optional[str]', 'List', 'Optional', 'List[str, int]', 'Optional[str, int]', 'Dict[str, str]',
               'List[List[str]]', '"str"', '3', 'Set[str]', 'Some_enum', 'Nonexistent', 'List[Nonexistent]', 'str | None', 'typing.List[str]',
               'List[Optional[str]]', 'Optional[List[Optional[str]]]', 'bytes', 'bytearray', 'float', 'object', 'None', 'List[3]', 'List[()]',
               'Optional[Optional[str]]', 'tuple', 'Tuple[str, str]', 'List["str"]']
DEFAULTS = ['None', '3', '"x"', '[]', 'Some_enum.Some_literal', '-1', 'None or 3', 'lambda: None', 'Nonexistent', '...']
BASES = ['DBC', 'DBC, DBC', '', 'Nonexistent', 'str, DBC', 'int', 'Enum', 'Some_enum', 'str, int', 'List[str]', 'DBC, metaclass=type',
         'object', '3', 'Something', 'bytearray, DBC', 'str', 'float, DBC, DBC', 'Base_text', 'Base_text, DBC', 'Base_text, Base_number',
         'Base_text, Some_enum', 'Base_number, str']
CTOR_EXTRAS = ['', ', *args', ', **kwargs', ', *, extra: str', ', extra', ', extra: str = "x"', ', text: str', ', /']
FUNCTIONS = [
    '@verification\ndef check(text: str) -> bool:\n    """Check."""\n    pattern = f"^a$"\n    return match(pattern, text) is not None\n',
    '@verification\ndef check(text: str) -> bool:\n    """Check."""\n    return match(r"^a$", text) is not None\n',
    '@verification\ndef check(text: str) -> bool:\n    """Check."""\n    return match(text) is not None\n',
    '@verification\ndef check() -> bool:\n    """Check."""\n    return True\n',
    '@verification\ndef check(text):\n    """Check."""\n    return True\n',
    '@verification\ndef check(text: str) -> bool:\n    """Check."""\n    pattern = f"^{text}$"\n    return match(pattern, text) is not None\n',
    '@verification\ndef check(text: str) -> bool:\n    """Check."""\n    a = f"x"\n    a = f"y"\n    return match(a, text) is not None\n',
    '@verification\n@implementation_specific\ndef check(text: str) -> bool:\n    """Check."""\n',
    '@verification\ndef check(text: str) -> bool:\n    """Check."""\n    for c in text:\n        pass\n    return True\n',
    '@verification\ndef check(text: str) -> bool:\n    """Check."""\n    pattern = f"^(a$"\n    return match(pattern, text) is not None\n',
    '@verification\ndef check(text: str) -> bool:\n    """Check."""\n    pattern = f"^[z-a]$"\n    return match(pattern, text) is not None\n',
    '@verification\ndef check(text: str) -> bool:\n    """Check."""\n    pattern = f"^\\\\d$"\n    return match(pattern, text) is not None\n',
    '@verification\ndef check(text: str) -> bool:\n    """Check."""\n    pattern = f"^a$"\n    return match(pattern, text, 3) is not None\n',
    '@verification\ndef check(text: str) -> bool:\n    """Check."""\n    pattern = f"^a$"\n    return match(pattern=pattern, string=text) is not None\n',
    '@verification\ndef check(text: str, *more: str) -> bool:\n    """Check."""\n    return True\n',
    'def check(text: str) -> bool:\n    """Check."""\n    return True\n',
    '@verification()\ndef check(text: str) -> bool:\n    """Check."""\n    return True\n',
    '@verification\nasync def check(text: str) -> bool:\n    """Check."""\n    return True\n',
    '@verification\ndef check(text: str) -> bool:\n    """Check."""\n    pattern = f"^[^\\U0001F600]$"\n    return match(pattern, text) is not None\n',
    '@verification\ndef check(text: str) -> bool:\n    """Check."""\n    pattern = f"^a{{2,1}}$"\n    return match(pattern, text) is not None\n',
    '@verification\ndef check(text: str) -> bool:\n    """Check."""\n    pattern = f"^*$"\n    return match(pattern, text) is not None\n',
]


DOC_POSITIONS = ["class", "property", "meta-model", "enumeration", "constant"]
_TARGETS = ["Base_text", "Missing", "~Base_text", ".Base_text", "", "Base_text<x>", "text <Base_text>", "Base_text y", "text", "~text",
            "Base_text.text", "Something.text", "Something.missing", "Missing.text", ".text", "Something.", "a.b.c", "Something.text!",
            "Some_enum.Some_literal", "Some_enum.Missing", "Small_set", "Small_set y", "AASd-001", "1"]
DOC_FORMS = (
    ["Represent :%s:`%s`." % (role, target) for role in ("class", "attr", "const", "paramref", "constraintref", "unknown")
     for target in _TARGETS] +
    ["Represent `x`.", "Represent ``x``.", "Represent *x*.", "Represent **x**.", "Represent |x|.", "Represent x_.", "Represent `x`_.",
     "Represent [1]_.", "Represent [#]_.", "Represent `x`__.", "Represent x__.",
     "Represent.\n\n    .. note::\n\n        Note.", "Represent.\n\n    .. unknown::\n\n        Note.", "Represent.\n\n    .. image:: x.png",
     "Represent.\n\n    .. note::", "Represent.\n\n    .. note:: inline",
     "Represent.\n\n    * a\n    * b", "Represent.\n\n    1. a\n    2. b",
     "Represent.\n\n    :constraint AASd-001:\n        Text.",
     "Represent.\n\n    :constraint AASd-001:\n        Text.\n\n    :constraint AASd-001:\n        Text.",
     "Represent.\n\n    :constraint:\n        Text.", "Represent.\n\n    :constraint AASd-001", "Represent.\n\n    :constraint AASd-001:",
     "Represent.\n\n    :constraint AASd-001:\n        :constraintref:`AASd-001` and :constraintref:`AASd-002`",
     "Represent.\n\n    :param x: X", "Represent.\n\n    :param text: X", "Represent.\n\n    :returns: X", "Represent.\n\n    :unknownfield: X",
     "Represent.\n\n    Title\n    =====\n\n    Text.", "Represent.\n\n    +---+\n    | a |\n    +---+", "Represent.\n\n    ::\n\n        code",
     "Represent.\n\n    >>> 1", "Represent.\n\n    .. code-block:: python\n\n        x = 1", "Represent.\n\n    term\n        definition",
     "Represent.\n\n    .. [1] footnote", "Represent.\n\n    .. _target:", "Represent.\n\n    .. |sub| replace:: x", "Represent.\n\n    .. comment",
     "", " ", "\n", "x", "Represent :class:`Base_text` :class:`Base_text`.", "Represent :class:`Base_text`:class:`Base_text`.",
     ":class:`Base_text`", "*", "**", "`", "``", "|", "_", "Represent.\n\n    :class:`Base_text`", "Represent.\n\n  odd indent\n      more",
     "Represent.\n\tTab.", "Represent http://example.com.", "Represent <b>x</b>.", "Represent &amp;.",
     "Represent :ref:`x`.", "Represent :math:`x`.", "Represent :sub:`x`.", "Represent :sup:`x`.", "Represent :emphasis:`x`.",
     "Represent :strong:`x`.", "Represent :literal:`x`.", "Represent :code:`x`.", "Represent :title:`x`.", "Represent :pep:`8`.",
     "Represent :rfc:`822`.", "Represent :raw:`x`.", "Represent :class:`Base_text", "Represent :class:Base_text`.",
     "Represent \u00e4\u2028\U0001F600."])


def build_text(kind: int, picks: List[int], n: int) -> str:
    """One member of the family: ``kind`` selects the construct, ``n`` the number of arguments, ``picks`` the arguments."""
    cls = dict(decorators="", bases="DBC", annotation="str", ctor_extra="", default="None", class_doc="Represent something.",
               prop_doc="Text")
    head = HEAD
    extra = ""
    if kind == 0:
        args = ", ".join(SET_ARGS[picks[i] % len(SET_ARGS)] for i in range(n))
        extra = f"Some_set: Set[str] = constant_set({args})\n"
    elif kind == 1:
        fn = ["constant_str", "constant_int", "constant_float", "constant_bool", "constant_bytearray", "constant_set"][picks[4] % 6]
        tp = ["str", "int", "float", "bool", "bytearray", "Set[str]", "List[str]", "Nonexistent"][picks[5] % 8]
        args = ", ".join(CONST_ARGS[picks[i] % len(CONST_ARGS)] for i in range(min(n, 4)))
        extra = f"Some_constant: {tp} = {fn}({args})\n"
    elif kind == 2:
        args = ", ".join(INVARIANT_ARGS[picks[i] % len(INVARIANT_ARGS)] for i in range(n))
        cls["decorators"] = f"@invariant({args})\n"
    elif kind == 3:
        args = ", ".join(SERIALIZATION_ARGS[picks[i] % len(SERIALIZATION_ARGS)] for i in range(min(n, 3)))
        deco = ["@serialization(%s)", "@abstract(%s)", "@abstract\n@serialization(%s)", "@implementation_specific(%s)",
                "@serialization", "@nonexistent(%s)", "@abstract\n@abstract"][picks[5] % 7]
        cls["decorators"] = (deco % args if "%s" in deco else deco) + "\n"
    elif kind == 4:
        cls["annotation"] = ANNOTATIONS[picks[0] % len(ANNOTATIONS)]
    elif kind == 5:
        cls["default"] = DEFAULTS[picks[0] % len(DEFAULTS)]
        cls["ctor_extra"] = CTOR_EXTRAS[picks[1] % len(CTOR_EXTRAS)]
    elif kind == 6:
        cls["bases"] = BASES[picks[0] % len(BASES)]
    elif kind == 7:
        extra = FUNCTIONS[picks[0] % len(FUNCTIONS)]
        cls["decorators"] = '@invariant(lambda self: check(self.text), "Text is checked")\n'
    elif kind == 8:
        doc = DOC_FORMS[picks[0] % len(DOC_FORMS)]
        position = DOC_POSITIONS[picks[1] % len(DOC_POSITIONS)]
        if position == "class":
            cls["class_doc"] = doc
        elif position == "property":
            cls["prop_doc"] = doc
        elif position == "meta-model":
            assert head.startswith('"""Meta-model for verification."""')
            head = '"""' + doc + '"""' + head[len('"""Meta-model for verification."""'):]
        elif position == "enumeration":
            assert '"""Represent an enumeration."""' in head
            head = head.replace('"""Represent an enumeration."""', '"""' + doc + '"""')
        elif position == "constant":
            assert 'description="A small set."' in head
            head = head.replace('description="A small set."', "description=" + repr(doc))
        else:
            raise AssertionError(position)
    else:
        raise AssertionError(kind)
    return head + extra + CLASS.format(**cls) + TAIL


def load(text: str) -> Tuple[str, str]:
    """run.load_model on the text (real file); ('ok' | 'rejected' | 'raised', detail)."""
    from aas_core_codegen import run
    with tempfile.TemporaryDirectory() as tmp:
        path = pathlib.Path(tmp) / "meta_model.py"
        path.write_text(text, encoding="utf-8")
        try:
            result, error = run.load_model(model_path=path, cache_model=False)
        except Exception as e:  # noqa
            return "raised", exception_key(e) + " | " + repr(e)[:300]
    if (result is None) == (error is None):
        return "raised", "load_model returned neither / both of (symbol table, error)"
    if error is not None:
        if len(error.strip()) == 0:
            return "raised", "empty error report"
        return "rejected", error
    return "ok", ""


def check_family(kind: Any, n: Any, picks: List[Any], fixed_kind: int, max_n: int, p0_range: Optional[List[int]] = None) -> str:
    assume(kind == fixed_kind)
    assume(0 <= n <= max_n)
    concrete_picks: List[int] = []
    sizes = {0: len(SET_ARGS), 1: len(CONST_ARGS), 2: len(INVARIANT_ARGS), 3: len(SERIALIZATION_ARGS), 4: len(ANNOTATIONS),
             5: len(DEFAULTS), 6: len(BASES), 7: len(FUNCTIONS), 8: len(DOC_FORMS)}[fixed_kind]
    n_concrete = 0
    for k in range(max_n + 1):
        if n == k:
            n_concrete = k
    for i, p in enumerate(picks):
        used = i < n_concrete or (fixed_kind in (1, 3) and i >= 4) or (fixed_kind in (4, 6, 7) and i == 0) or (fixed_kind in (5, 8) and i <= 1)
        if not used:
            assume(p == 0)
            concrete_picks.append(0)
            continue
        bound = sizes if not (fixed_kind in (1, 3) and i >= 4) else 8
        if fixed_kind == 5 and i == 1:
            bound = len(CTOR_EXTRAS)
        if fixed_kind == 8 and i == 1:
            bound = len(DOC_POSITIONS)
        lo = 0
        if i == 0 and p0_range is not None:
            lo, bound = p0_range[0], min(bound, p0_range[1])
        assume(lo <= p < bound)
        chosen = lo
        for v in range(lo, bound):
            if p == v:
                chosen = v
                break
        concrete_picks.append(chosen)
    text = build_text(fixed_kind, concrete_picks, n_concrete)
    outcome, detail = untraced(load, text)
    if outcome == "raised":
        fail("front-end:raises:" + detail.split(" | ")[0], "%s\n--- on\n%s", detail, text[len(HEAD):])
    return outcome


def make_harness(params: Dict[str, Any]):
    fixed_kind, max_n = params["kind"], params["max_n"]
    fixed_n = params.get("n")

    def harness(kind: int, n: int, p0: int, p1: int, p2: int, p3: int, p4: int, p5: int) -> Any:
        if fixed_n is not None:
            assume(n == fixed_n)
        if params.get("p0") is not None:
            assume(p0 == params["p0"])
        return check_family(kind, n, [p0, p1, p2, p3, p4, p5], fixed_kind, max_n, params.get("p0_range"))

    return harness


KIND_NAMES = {0: "constant_set-arguments", 1: "constant_*-arguments", 2: "invariant-arguments", 3: "class-decorators",
              4: "type-annotations", 5: "constructor-shapes", 6: "base-classes", 7: "verification-functions", 8: "descriptions"}


def shards(tier: str) -> List[Dict[str, Any]]:
    out = []
    plan = {0: 3, 1: 1, 2: 2, 3: 2, 4: 0, 5: 0, 6: 0, 7: 0, 8: 0} if tier == "quick" else {0: 4, 1: 3, 2: 3, 3: 3, 4: 0, 5: 0, 6: 0, 7: 0, 8: 0}
    for kind, max_n in plan.items():
        sizes = {0: len(SET_ARGS), 1: len(CONST_ARGS), 2: len(INVARIANT_ARGS), 3: len(SERIALIZATION_ARGS)}
        for n in range(max_n + 1):
            firsts = [None] if (n < 2 or kind >= 4) else list(range(sizes[kind]))  # many combinations: one shard per first argument
            if kind == 8:
                for lo in range(0, len(DOC_FORMS), 24):
                    out.append({"name": f"{KIND_NAMES[kind]},forms {lo}..{min(lo + 24, len(DOC_FORMS)) - 1}",
                                "params": {"kind": kind, "max_n": max_n, "n": n, "p0": None, "p0_range": [lo, lo + 24]},
                                "budget_s": 300 if tier == "quick" else 3000, "per_path_timeout": 120})
                continue
            for p0 in firsts:
                out.append({"name": f"{KIND_NAMES[kind]},n={n}" + (f",first-argument={p0}" if p0 is not None else ""),
                            "params": {"kind": kind, "max_n": max_n, "n": n, "p0": p0},
                            "budget_s": 300 if tier == "quick" else 3000, "per_path_timeout": 120})
    return out


def describe(tier: str) -> Dict[str, Any]:
    return {
        "functions": ["aas_core_codegen.run.load_model", "aas_core_codegen.parse._translate.atok_to_symbol_table",
                      "aas_core_codegen.parse._translate._parse_constant_set", "aas_core_codegen.parse._translate._parse_constant_primitive",
                      "aas_core_codegen.parse._rules.ast_node_to_our_node", "aas_core_codegen.intermediate._translate.translate",
                      "aas_core_codegen.intermediate.pattern_verification.try_to_understand",
                      "aas_core_codegen.run.write_error_report"],
        "bounds": "a family of meta-model texts decoded from small symbolic integers: constant_set(...) with 0..3 (4) and constant_*(...) with 0..1 (3) "
                  f"positional / keyword arguments drawn from {len(SET_ARGS)} / {len(CONST_ARGS)} argument forms, @invariant(...) with 0..2 (3) "
                  f"arguments from {len(INVARIANT_ARGS)} forms (incl. malformed any/all/range/len/match calls), class decorators, "
                  f"{len(ANNOTATIONS)} type annotations, {len(DEFAULTS)}x{len(CTOR_EXTRAS)} constructor shapes, {len(BASES)} base-class lists, "
                  f"{len(FUNCTIONS)} verification-function bodies (incl. unparsable patterns), {len(DOC_FORMS)} description forms (every reference role "
                  f"x {len(_TARGETS)} target spellings, reST constructs) at {len(DOC_POSITIONS)} positions; each text goes through the REAL "
                  "run.load_model: it must return a table or a non-empty report and never raise",
        "outside": "texts outside the family (arbitrary Python); syntactically invalid Python (ast.parse is trusted, the SyntaxError branch "
                   "is exercised in C03); symbolic pattern strings (their parser is decided in C16)",
        "stubs": [],
        "assumptions": ["finite family: the symbolic integers only select the text; load_model runs concretely and untraced -- the solver "
                        "acts as an exhaustive enumerator (stated honestly in DESIGN.md)"],
        "rule": "one shard per construct and number of arguments",
    }
