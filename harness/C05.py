"""C05 -- the intermediate model faithfully resolves inheritance (class DAGs, constrained-primitive chains)."""
from __future__ import annotations

from typing import Any, Dict, List, Optional, Set, Tuple

from aas_core_codegen import intermediate
from aas_core_codegen.intermediate import construction

from vf.common import assume, fail, untraced

PROPERTY = "C05"
LEVEL = "model_checking"


def class_dag_text(k: int, edges: List[Tuple[int, int]], abstract: List[bool], model_type: List[Any], order: List[int],
                   parents_in_order: Optional[Dict[int, List[int]]] = None) -> str:
    """Classes C0..C<k-1>; (i, j) in edges: Cj inherits from Ci (i < j); every class owns one property and one invariant.

    ``model_type[j]`` is False (no decorator), True (``with_model_type=True``) or "bare" (``@serialization()``)."""
    parents: Dict[int, List[int]] = {j: [i for (i, jj) in edges if jj == j] for j in range(k)}
    if parents_in_order is not None:
        parents = parents_in_order
    ancestors: Dict[int, List[int]] = {}

    def anc(j: int) -> List[int]:
        if j not in ancestors:
            out: List[int] = []
            for p in parents[j]:
                for a in anc(p) + [p]:
                    if a not in out:
                        out.append(a)
            ancestors[j] = out
        return ancestors[j]

    lines = ['"""Meta-model for verification."""', "from typing import List, Optional", "", "from icontract import invariant, DBC",
             "", "from aas_core_meta.marker import abstract, serialization", "", ""]
    for j in order:
        if abstract[j]:
            lines.append("@abstract")
        if model_type[j] == "bare":
            lines.append("@serialization()")
        elif model_type[j]:
            lines.append("@serialization(with_model_type=True)")
        lines.append(f'@invariant(lambda self: self.p{j} >= 0, "Invariant of C{j}")')
        bases = ", ".join(f"C{p}" for p in parents[j]) or "DBC"
        lines.append(f"class C{j}({bases}):")
        lines.append(f'    """Represent C{j}."""')
        lines.append("")
        lines.append(f"    p{j}: int")
        lines.append(f'    """Property of C{j}"""')
        lines.append("")
        all_props = [f"p{a}" for a in anc(j)] + [f"p{j}"]
        args = ", ".join(f"{p}: int" for p in all_props)
        lines.append(f"    def __init__(self, {args}) -> None:")
        for p in parents[j]:
            parent_props = [f"p{a}" for a in anc(p)] + [f"p{p}"]
            lines.append(f"        C{p}.__init__(self, {', '.join(parent_props)})")
        if parents[j]:
            lines.append("")
        lines.append(f"        self.p{j} = p{j}")
        lines.append("")
        lines.append("")
    lines += ['__version__ = "V0"', '__xml_namespace__ = "https://example.invalid/verif"', ""]
    return "\n".join(lines)


def _load(text: str) -> Tuple[Any, Optional[str]]:
    from vf.models import front_end
    st, err, _ = front_end(text)
    return st, err


def check_dag(k: int, edge_bits: List[Any], abstract_bits: List[Any], model_type_bits: List[Any]) -> str:
    pairs = [(i, j) for j in range(k) for i in range(j)]
    edges = [pairs[n] for n in range(len(pairs)) if edge_bits[n]]       # forks: the solver enumerates the DAGs
    abstract = [True if abstract_bits[j] else False for j in range(k)]
    model_type = [True if model_type_bits[j] else False for j in range(k)]
    return check_resolved(k, edges, abstract, model_type, None)


def check_resolved(k: int, edges: List[Tuple[int, int]], abstract: List[bool], model_type: List[Any],
                   parents_in_order: Optional[Dict[int, List[int]]]) -> str:
    text = class_dag_text(k, edges, abstract, model_type, list(range(k)), parents_in_order)
    st, err = untraced(_load, text)

    # ---- reference
    parents = {j: [i for (i, jj) in edges if jj == j] for j in range(k)}
    closure: Dict[int, Set[int]] = {}
    for j in range(k):
        seen: Set[int] = set()
        stack = list(parents[j])
        while stack:
            x = stack.pop()
            if x not in seen:
                seen.add(x)
                stack.extend(parents[x])
        closure[j] = seen
    descendants = {i: {j for j in range(k) if i in closure[j]} for i in range(k)}
    # the serialization rule of the front end: a class with concrete descendants (or an abstract one) whose descendants
    # are concrete must carry with_model_type consistently; if the model is rejected for such a reason it is no C05 matter
    if st is None:
        if "with_model_type" in (err or "") or "model type" in (err or "").lower():
            return "rejected:model-type-rule"
        if not any(not a for a in abstract):
            return "rejected"
        fail("dag:well-formed-hierarchy-is-rejected", "edges=%r abstract=%r: %s", edges, abstract, (err or "")[:300])

    def ids(classes: Any) -> List[int]:
        return [int(c.name[1:]) for c in classes]

    for j in range(k):
        cls = st.must_find_class(f"C{j}")
        if sorted(ids(cls.inheritances)) != sorted(parents[j]):
            fail("dag:inheritances-differ-from-the-declared-bases", "C%d: %r vs %r", j, ids(cls.inheritances), parents[j])
        got_anc = ids(cls.ancestors)
        if len(got_anc) != len(set(got_anc)):
            fail("dag:ancestor-listed-twice", "C%d: %r (edges %r)", j, got_anc, edges)
        if set(got_anc) != closure[j]:
            fail("dag:ancestors-are-not-the-transitive-closure", "C%d: %r vs %r (edges %r)", j, got_anc, sorted(closure[j]), edges)
        got_desc = ids(cls.descendants)
        if len(got_desc) != len(set(got_desc)) or set(got_desc) != descendants[j]:
            fail("dag:descendants-are-not-the-inverse-relation", "C%d: %r vs %r (edges %r)", j, got_desc, sorted(descendants[j]), edges)
        want_concrete = {d for d in descendants[j] if not abstract[d]}
        if set(ids(cls.concrete_descendants)) != want_concrete or len(cls.concrete_descendants) != len(want_concrete):
            fail("dag:concrete-descendants-differ", "C%d: %r vs %r", j, ids(cls.concrete_descendants), sorted(want_concrete))
        for a in range(k):
            if cls.is_subclass_of(st.must_find_class(f"C{a}")) != (a == j or a in closure[j]):
                fail("dag:is_subclass_of-differs-from-the-closure", "C%d vs C%d", j, a)
        # ---- stacked members: inherited first (each once), own last
        prop_names = [p.name for p in cls.properties]
        want_props = {f"p{a}" for a in closure[j]} | {f"p{j}"}
        if len(prop_names) != len(set(prop_names)):
            fail("dag:property-stacked-twice", "C%d: %r (edges %r)", j, prop_names, edges)
        if set(prop_names) != want_props:
            fail("dag:properties-are-not-inherited-plus-own", "C%d: %r vs %r", j, prop_names, sorted(want_props))
        if prop_names[-1] != f"p{j}":
            fail("dag:own-property-is-not-last", "C%d: %r", j, prop_names)
        for p in cls.properties:
            owner = int(p.name[1:])
            if p.specified_for is not st.must_find_class(f"C{owner}"):
                fail("dag:property-attributed-to-the-wrong-class", "C%d.%s", j, p.name)
            # an inherited property comes after the properties of ITS ancestors
            for q in cls.properties:
                if int(q.name[1:]) in closure[owner] and prop_names.index(q.name) > prop_names.index(p.name):
                    fail("dag:descendant-property-before-ancestor-property", "C%d: %r", j, prop_names)
        inv_descriptions = [inv.description for inv in cls.invariants]
        want_invs = {f"Invariant of C{a}" for a in closure[j]} | {f"Invariant of C{j}"}
        if len(inv_descriptions) != len(set(inv_descriptions)):
            fail("dag:invariant-stacked-twice", "C%d: %r (edges %r)", j, inv_descriptions, edges)
        if set(inv_descriptions) != want_invs:
            fail("dag:invariants-are-not-inherited-plus-own", "C%d: %r vs %r", j, inv_descriptions, sorted(want_invs))
        if inv_descriptions[-1] != f"Invariant of C{j}":
            fail("dag:own-invariant-is-not-last", "C%d: %r", j, inv_descriptions)
        # ---- in-lined constructor: every property assigned exactly once, from the argument of the same name
        assigned = []
        for stmt in cls.constructor.inlined_statements:
            if not isinstance(stmt, construction.AssignArgument):
                fail("dag:inlined-constructor-holds-something-else-than-assignments", "C%d: %r", j, stmt)
            assigned.append(str(stmt.name))
            if str(stmt.argument) != str(stmt.name):
                fail("dag:inlined-constructor-assigns-from-another-argument", "C%d: %s = %s", j, stmt.name, stmt.argument)
        if sorted(assigned) != sorted(want_props):
            fail("dag:inlined-constructor-does-not-assign-every-property-exactly-once", "C%d: %r vs %r (edges %r)", j, assigned,
                 sorted(want_props), edges)
        # ---- interface: exactly for abstract classes and concrete classes with descendants
        want_interface = abstract[j] or len(descendants[j]) > 0
        if (cls.interface is not None) != want_interface:
            fail("dag:interface-presence-differs", "C%d abstract=%r descendants=%r interface=%r", j, abstract[j], sorted(descendants[j]),
                 cls.interface is not None)
        if cls.interface is not None:
            if sorted(int(i.base.name[1:]) for i in cls.interface.inheritances) != sorted(parents[j]):
                fail("dag:interface-inheritances-differ", "C%d", j)
        # ---- kind
        if isinstance(cls, intermediate.AbstractClass) != abstract[j]:
            fail("dag:abstract-flag-differs", "C%d", j)
        # ---- model type propagated down the hierarchy
        want_mt = (model_type[j] is True) or any(model_type[a] is True for a in closure[j])
        if cls.serialization.with_model_type != want_mt:
            fail("dag:with_model_type-is-not-propagated-consistently", "C%d: %r vs %r (edges %r, flags %r)", j,
                 cls.serialization.with_model_type, want_mt, edges, model_type)
    # ---- topological order
    order = [t.name for t in st.our_types_topologically_sorted]
    for j in range(k):
        for a in closure[j]:
            if order.index(f"C{a}") > order.index(f"C{j}"):
                fail("dag:topological-order-puts-a-descendant-first", "%r", order)
    if sorted(order) != sorted(t.name for t in st.our_types):
        fail("dag:topological-order-is-not-a-permutation-of-the-types", "%r", order)
    return "accepted"


PRIMITIVE_CHAIN = '''"""Meta-model for verification."""
from icontract import invariant, DBC


@invariant(lambda self: len(self) > 0, "Invariant of P0")
class P0(str, DBC):
    """Represent P0."""


@invariant(lambda self: len(self) > 1, "Invariant of P1")
class P1(P0, DBC):
    """Represent P1."""


@invariant(lambda self: len(self) > 2, "Invariant of P2")
class P2(P1, DBC):
    """Represent P2."""


class Something(DBC):
    """Represent something."""

    x: P2
    """X"""

    def __init__(self, x: P2) -> None:
        self.x = x


__version__ = "V0"
__xml_namespace__ = "https://example.invalid/verif"
'''


def check_primitive_chain() -> List[str]:
    st, err = _load(PRIMITIVE_CHAIN)
    if st is None:
        return [f"constrained-primitive chain rejected: {err}"]
    problems = []
    for j, want_anc in ((0, []), (1, ["P0"]), (2, ["P0", "P1"])):
        cp = st.must_find_constrained_primitive(f"P{j}")
        if sorted(a.name for a in cp.ancestors) != want_anc:
            problems.append(f"P{j}.ancestors = {[a.name for a in cp.ancestors]}")
        if cp.constrainee is not intermediate.PrimitiveType.STR:
            problems.append(f"P{j}.constrainee = {cp.constrainee}")
        invs = [i.description for i in cp.invariants]
        if invs != [f"Invariant of P{a}" for a in range(j + 1)]:
            problems.append(f"P{j}.invariants = {invs}")
        want_desc = sorted(f"P{d}" for d in range(j + 1, 3))
        if sorted(d.name for d in cp.descendants) != want_desc:
            problems.append(f"P{j}.descendants = {[d.name for d in cp.descendants]}")
    return problems


PERMUTATIONS = [[0, 1, 2], [0, 2, 1], [1, 0, 2], [1, 2, 0], [2, 0, 1], [2, 1, 0]]


def check_three_parents(from_first: List[Any], perm: Any, styles: List[Any]) -> str:
    """C0, C1 roots; C2, C3, C4 each below C0 or C1; C5(three parents in a symbolic order); serialization styles symbolic."""
    assume(0 <= perm < 6)
    middle_parent = [0 if (True if f else False) else 1 for f in from_first]
    order = PERMUTATIONS[0]
    for n in range(6):
        if perm == n:
            order = PERMUTATIONS[n]
    model_type: List[Any] = []
    for s in styles:
        assume(0 <= s <= 2)
        chosen: Any = False
        for v, name in ((0, False), (1, True), (2, "bare")):
            if s == v:
                chosen = name
        model_type.append(chosen)
    parents = {0: [], 1: [], 2: [middle_parent[0]], 3: [middle_parent[1]], 4: [middle_parent[2]], 5: [2 + o for o in order]}
    edges = [(p, j) for j, ps in parents.items() for p in ps]
    abstract = [True, True, True, True, True, False]
    return check_resolved(6, edges, abstract, model_type, parents)


def make_harness(params: Dict[str, Any]):
    if params.get("kind") == "three-parents":
        def harness3(f0: bool, f1: bool, f2: bool, perm: int, s0: int, s1: int, s2: int, s3: int, s4: int, s5: int) -> Any:
            styles = [s0, s1, s2, s3, s4, s5]
            for i, s in enumerate(styles):
                if i not in params["styled"]:
                    assume(s == 0)
            return check_three_parents([f0, f1, f2], perm, styles)

        return harness3
    k = params["k"]
    n_pairs = k * (k - 1) // 2

    def harness(e0: bool, e1: bool, e2: bool, e3: bool, e4: bool, e5: bool, a0: bool, a1: bool, a2: bool, a3: bool,
                m0: bool, m1: bool, m2: bool, m3: bool) -> Any:
        e, a, m = [e0, e1, e2, e3, e4, e5], [a0, a1, a2, a3], [m0, m1, m2, m3]
        for n in range(6):
            if n >= n_pairs:
                assume(not e[n])
        for j in range(4):
            if j >= k:
                assume(not a[j] and not m[j])
        if params.get("fixed_abstract") is not None:
            for j in range(k):
                assume(a[j] == params["fixed_abstract"][j])
        if not params["model_types"]:
            for j in range(k):
                assume(not m[j])
        return check_dag(k, e, a, m)

    return harness


def shards(tier: str) -> List[Dict[str, Any]]:
    import itertools
    out = []
    for k in (2, 3, 4):
        for fixed in itertools.product((False, True), repeat=k):
            if all(fixed):
                continue  # no concrete class at all
            for mt in (False, True):
                if mt and tier == "quick" and k == 4:
                    continue
                out.append({"name": f"k={k},abstract={''.join('1' if f else '0' for f in fixed)},model-types={'symbolic' if mt else 'none'}",
                            "params": {"k": k, "fixed_abstract": list(fixed), "model_types": mt},
                            "budget_s": 300 if tier == "quick" else 3000, "per_path_timeout": 120})
    # three parents with shared ancestors in every order; serialization decorators in three styles on two classes at a time
    for styled in ([0, 2], [0, 5], [2, 5], [1, 3]) if tier == "quick" else ([0, 2], [0, 5], [2, 5], [1, 3], [0, 1], [3, 4], [4, 5]):
        out.append({"name": f"three-parents,styled-classes={styled}", "params": {"kind": "three-parents", "styled": styled},
                    "budget_s": 300 if tier == "quick" else 3000, "per_path_timeout": 120})
    return out


def extra_checks(tier: str) -> Dict[str, Any]:
    problems = check_primitive_chain()
    return {"violations": [{"key": "chain:constrained-primitive-chain-resolved-wrongly", "msg": "; ".join(problems), "args": "P0<-P1<-P2"}]
            if problems else [], "evidence": {"constrained_primitive_chain_checked": True, "evaluations": 1, "distinct_nontrivial": 1}}


def describe(tier: str) -> Dict[str, Any]:
    return {
        "functions": ["aas_core_codegen.intermediate._hierarchy.map_symbol_to_ancestors_or_error",
                      "aas_core_codegen.intermediate._translate.translate", "aas_core_codegen.intermediate._types.Class",
                      "aas_core_codegen.intermediate.construction.understand_all"],
        "bounds": "a six-class family (two roots, three middle classes below either root, one class with the three middle classes as parents in "
                  "every order; @serialization absent / with_model_type=True / bare on two classes at a time); all DAGs over k = 2..4 classes in declaration order (every subset of the k(k-1)/2 possible edges), "
                  "every assignment of abstract / concrete (at least one concrete) and of with_model_type flags (quick tier: no model-type flags for k = 4); each class owns one "
                  "property and one invariant and a constructor which calls the constructors of all its bases; plus one chain of "
                  "three constrained primitives (concrete)",
        "outside": "k > 4; declaration orders other than the index order; methods; properties of non-primitive types",
        "stubs": [],
        "assumptions": ["the symbolic booleans only select the model: the front end itself runs concretely (and untraced) on the decoded "
                        "text -- the solver is an exhaustive enumerator of a finite family here (stated in DESIGN.md)",
                        "a model rejected because of the with_model_type rule is no inheritance matter and counts as 'rejected'"],
        "rule": "one shard per k and abstract/concrete assignment; edges and model-type flags symbolic",
    }
