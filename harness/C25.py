"""C25 -- the snippet directory is loaded exactly (specific_implementations.read_from_directory)."""
from __future__ import annotations

import collections.abc
import itertools
from typing import Any, Dict, List, Optional, Tuple

from aas_core_codegen import specific_implementations

from vf.common import assume, fail, symbolic
from vf.sym import contains
from vf.fakefs import FakePath, Node, validate_against_real_fs

PROPERTY = "C25"
LEVEL = "model_checking"

validate_against_real_fs()


class ScanDict(collections.abc.MutableMapping):
    """Replaces ``dict()`` inside read_from_directory: a real dict hashes (i.e. realizes) a symbolic key."""

    def __init__(self) -> None:
        self.items_: List[Tuple[Any, Any]] = []

    def __setitem__(self, key: Any, value: Any) -> None:
        for i, (k, _) in enumerate(self.items_):
            if k == key:
                self.items_[i] = (key, value)
                return
        self.items_.append((key, value))

    def __getitem__(self, key: Any) -> Any:
        for k, v in self.items_:
            if k == key:
                return v
        raise KeyError(key)

    def __delitem__(self, key: Any) -> None:
        raise NotImplementedError

    def __iter__(self) -> Any:
        return iter([k for k, _ in self.items_])

    def __len__(self) -> int:
        return len(self.items_)


_REAL_KEY_RE = specific_implementations.IMPLEMENTATION_KEY_RE


class _SolverRegex:
    """Stands in for the compiled IMPLEMENTATION_KEY_RE: same pattern text (read from the real object at run time),
    matching encoded as one solver term (vf.sym.regex_match) instead of CrossHair's per-character forking."""

    def __init__(self, real: Any) -> None:
        self.pattern = real.pattern

    def fullmatch(self, text: Any) -> Any:
        from vf.sym import regex_match
        if regex_match(self.pattern, text, "fullmatch"):
            return self
        return None


    def match(self, text: Any) -> Any:
        """Prefix match: some prefix of ``text`` matches completely (the key pattern has no anchors or look-arounds)."""
        from vf.sym import codepoints, regex_match_units
        cps = codepoints(text)
        found: Any = False
        for k in range(len(cps) + 1):
            found = found | regex_match_units(self.pattern, cps[:k], "fullmatch")
        if found:
            return self
        return None


def _install_stubs() -> None:
    specific_implementations.dict = ScanDict  # type: ignore
    specific_implementations.IMPLEMENTATION_KEY_RE = _SolverRegex(_REAL_KEY_RE)  # type: ignore


def _is_letter_or_underscore(o: Any) -> Any:
    # '&' and '|' on symbolic booleans build ONE solver term (no path fork per comparison)
    return ((o >= 97) & (o <= 122)) | ((o >= 65) & (o <= 90)) | (o == 95)


def valid_segment(name: Any) -> bool:
    """``[a-zA-Z_][a-zA-Z_0-9.]*`` spelled out on code points (independent of the regular expression)."""
    if len(name) == 0:
        return False
    ok: Any = _is_letter_or_underscore(ord(name[0]))
    for c in name[1:]:
        o = ord(c)
        ok = ok & (_is_letter_or_underscore(o) | ((o >= 48) & (o <= 57)) | (o == 46))
    if ok:
        return True
    return False


def posix(parts: List[Any]) -> Any:
    out = parts[0]
    for p in parts[1:]:
        out = out + "/" + p
    return out


def check(shape: List[Tuple[int, bool]], names: List[Any], contents: List[Any], undecodable: List[Any]) -> str:
    """shape[i] = (parent index or -1, is_dir)."""
    _install_stubs() if symbolic() else None
    root = Node("snippets", True)
    nodes: List[Node] = []
    parts_of: List[List[Any]] = []
    for i, (parent, is_dir) in enumerate(shape):
        node = Node(names[i], is_dir, None if is_dir else contents[i], (not is_dir) and undecodable[i])
        (root if parent < 0 else nodes[parent]).children.append(node)
        nodes.append(node)
        parts_of.append((parts_of[parent] if parent >= 0 else []) + [names[i]])
    # siblings have distinct names (a file system guarantees that)
    for i, j in itertools.combinations(range(len(shape)), 2):
        if shape[i][0] == shape[j][0]:
            assume(names[i] != names[j])

    snippets_dir = FakePath("/somewhere/snippets", [root])
    result = specific_implementations.read_from_directory(snippets_dir=snippets_dir)  # type: ignore
    mapping, errors = result
    if (mapping is None) == (errors is None):
        fail("snippets:not-exactly-one-of-mapping-and-errors")

    # ---- oracle
    expected: List[Tuple[Any, Any]] = []
    offending: List[Tuple[Any, str]] = []
    for i, (parent, is_dir) in enumerate(shape):
        if is_dir:
            continue
        hidden = False
        for part in parts_of[i]:
            if part.startswith("."):
                hidden = True
        if hidden:
            continue
        key = posix(parts_of[i])
        ok_key = True
        for part in parts_of[i]:
            if not valid_segment(part):
                ok_key = False
        if not ok_key:
            offending.append((key, "invalid-key"))
        elif undecodable[i]:
            offending.append((key, "not-utf-8"))
        else:
            expected.append((key, contents[i].strip()))

    if offending:
        if errors is None:
            fail("snippets:offending-file-not-reported", "%r", lambda: offending)
        for key, why in offending:
            named = False
            for e in errors:
                if contains(e, key):
                    named = True
            if not named:
                fail("snippets:error-does-not-name-the-file:" + why, "%r errors=%r", key, errors)
        return "errors"

    if errors is not None:
        fail("snippets:errors-although-every-visible-file-is-fine", "errors=%r tree=%r", errors,
             lambda: [posix(p) for p in parts_of])
    if len(mapping) != len(expected):
        fail("snippets:number-of-keys-differs", "mapping=%r expected=%r", lambda: dict(mapping.items()), expected)
    for key, value in expected:
        found = False
        for k in mapping:
            if k == key:
                found = True
                if mapping[k] != value:
                    fail("snippets:content-differs", "key=%r got=%r expected=%r", key, lambda: mapping[k], value)
        if not found:
            fail("snippets:file-missing-from-the-mapping", "key=%r mapping=%r", key, lambda: list(mapping))
    return "mapping"


def _shapes(k: int) -> List[List[Tuple[int, bool]]]:
    out = []
    for kinds in itertools.product((False, True), repeat=k):
        parent_choices = []
        for i in range(k):
            parent_choices.append([-1] + [j for j in range(i) if kinds[j]])
        for parents in itertools.product(*parent_choices):
            # canonical form: a directory without children is kept only as the last sibling kind (still covered)
            out.append([(parents[i], kinds[i]) for i in range(k)])
    return out


def make_harness(params: Dict[str, Any]):
    shape = [tuple(x) for x in params["shape"]]
    k = len(shape)
    name_len = params["name_len"]
    content_len = params["content_len"]
    content_exact = params.get("content_exact")

    def harness(n0: str, n1: str, n2: str, n3: str, c0: str, c1: str, c2: str, c3: str,
                u0: bool, u1: bool, u2: bool, u3: bool) -> Any:
        names_in, contents_in, und_in = [n0, n1, n2, n3], [c0, c1, c2, c3], [u0, u1, u2, u3]
        names: List[Any] = []
        contents: List[Any] = []
        und: List[Any] = []
        for i in range(4):
            if i >= k:
                assume(len(names_in[i]) == 0 and len(contents_in[i]) == 0 and not und_in[i])
                continue
            n = names_in[i]
            assume(len(n) == name_len[i])
            assume("/" not in n and "\x00" not in n)
            assume(n != "." and n != "..")
            names.append(n)
            if shape[i][1]:
                assume(len(contents_in[i]) == 0 and not und_in[i])
                contents.append("")
                und.append(False)
            else:
                assume(len(contents_in[i]) <= content_len)
                if content_exact is not None:
                    assume(len(contents_in[i]) == content_exact or und_in[i])
                if und_in[i]:
                    assume(len(contents_in[i]) == 0)
                    und.append(True)
                else:
                    und.append(False)
                contents.append(contents_in[i])
        return check(shape, names, contents, und)

    return harness


def shards(tier: str) -> List[Dict[str, Any]]:
    out = []
    if tier == "quick":
        plan = [(1, 4, 3), (2, 2, 1), (3, 1, 1)]
    else:
        plan = [(1, 6, 4), (2, 3, 3), (3, 2, 2), (4, 1, 1)]
    for k, name_len, content_len in plan:
        for shape in _shapes(k):
            if all(is_dir for _, is_dir in shape):
                continue  # no file at all: nothing to load (covered by the shapes with a file)
            nfiles = sum(1 for _, d in shape if not d)
            for lens in itertools.product(range(1, name_len + 1), repeat=k):
                exacts = list(range(content_len + 1)) if (k == 1 or sum(1 for _, d in shape if not d) >= 3) else [None]
                for content_exact in exacts:
                    out.append({"name": f"k={k},name-lengths={'/'.join(map(str, lens))},content" +
                                        (f"={content_exact}" if content_exact is not None else f"<={content_len}") + ",shape=" +
                                        ";".join(f"{'d' if d else 'f'}@{p}" for p, d in shape),
                                "params": {"shape": [list(s) for s in shape], "name_len": list(lens),
                                           "content_len": content_len, "content_exact": content_exact},
                                "budget_s": (60 if nfiles >= 3 else 200) if tier == "quick" else 1500,
                                **({"exploratory": True} if (tier == "quick" and nfiles >= 3) else {}),
                                "per_path_timeout": 30})
    return out


def public_replay(params: Dict[str, Any], kwargs: Dict[str, Any]) -> Optional[str]:
    """The same tree in a real temporary directory through the real pathlib."""
    import pathlib
    import tempfile

    shape = [tuple(x) for x in params["shape"]]
    with tempfile.TemporaryDirectory() as tmp:
        root = pathlib.Path(tmp) / "snippets"
        root.mkdir()
        paths: List[pathlib.Path] = []
        try:
            for i, (parent, is_dir) in enumerate(shape):
                p = (root if parent < 0 else paths[parent]) / kwargs[f"n{i}"]
                paths.append(p)
                if is_dir:
                    p.mkdir()
                elif kwargs[f"u{i}"]:
                    p.write_bytes(b"\xff")
                else:
                    p.write_bytes(kwargs[f"c{i}"].encode("utf-8"))
        except (OSError, UnicodeEncodeError, ValueError) as e:
            return f"tree not representable on this file system: {e!r}"
        try:
            mapping, errors = specific_implementations.read_from_directory(snippets_dir=root)
        except Exception as e:  # noqa
            return f"real file system: raised {e!r}"
        return f"real file system: mapping={None if mapping is None else dict(mapping)!r} errors={errors!r}"


def describe(tier: str) -> Dict[str, Any]:
    s = shards(tier)
    return {
        "functions": ["aas_core_codegen.specific_implementations.read_from_directory",
                      "aas_core_codegen.specific_implementations.ImplementationKey",
                      "aas_core_codegen.common.Stripped"],
        "bounds": f"{len(s)} tree shapes with 1..{max(len(x['params']['shape']) for x in s)} entries (each a file or a "
                  "directory below the root or below an earlier directory); names symbolic over all of Unicode minus '/' "
                  "and NUL (length bound per number of entries as in the shard names), contents symbolic or 'not UTF-8'",
        "outside": "longer names/contents, more entries than the bound; symbolic links and special files; the operating "
                   "system's own name restrictions",
        "stubs": ["the compiled IMPLEMENTATION_KEY_RE -> an object with the same pattern text whose fullmatch is the "
                  "NFA reachability formula of that pattern (pattern read by CPython's re._parser at run time)",
                  "pathlib.Path -> vf.fakefs.FakePath (glob('**/*'), name, is_dir, relative_to, parent, '/', as_posix, "
                  "read_text; validated against a real temporary directory at import)",
                  "dict() inside read_from_directory -> linear-scan mapping (hashing realizes symbolic keys)"],
        "assumptions": ["sibling names are distinct; names are non-empty, not '.'/'..', without '/' and NUL",
                        "hidden = some component of the relative path starts with '.'",
                        "'naming the file' = the relative POSIX path occurs in one of the error messages"],
        "rule": "one shard per tree shape",
    }
