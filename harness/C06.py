"""C06 -- accepted meta-models satisfy the structural rules: every single-rule mutation of a valid model is rejected."""
from __future__ import annotations

from typing import Any, Callable, Dict, List, Optional, Tuple

from vf.common import assume, fail, untraced

PROPERTY = "C06"
LEVEL = "model_checking"

BASE = '''"""Meta-model for verification."""
from enum import Enum
from re import match
from typing import List, Optional, Set

from icontract import invariant, DBC

from aas_core_meta.marker import abstract, serialization, verification, constant_set, implementation_specific


@verification
def matches_something(text: str) -> bool:
    """Check that :paramref:`text` matches something."""
    pattern = f"^something$"
    return match(pattern, text) is not None


class Some_enum(Enum):
    """Represent an enumeration."""

    Some_literal = "SOME"
    Another_literal = "ANOTHER"


Some_set: Set[Some_enum] = constant_set(
    values=[Some_enum.Some_literal],
    description="Some set.",
)


@abstract
@serialization(with_model_type=True)
@invariant(lambda self: len(self.parent_text) > 0, "Parent text is not empty")
class Parent(DBC):
    """Represent a parent, see :class:`Child`."""

    parent_text: str
    """Text of the parent, see :attr:`Child.child_text`"""

    def __init__(self, parent_text: str) -> None:
        self.parent_text = parent_text


@invariant(lambda self: len(self.child_text) > 0, "Child text is not empty")
@invariant(lambda self: not (self.optional_text is not None) or matches_something(self.optional_text), "Optional text matches")
class Child(Parent):
    """Represent a child."""

    child_text: str
    """Text of the child"""

    some_enum: Some_enum
    """Some enumeration"""

    items: List[str]
    """Items"""

    optional_text: Optional[str]
    """Optional text"""

    def __init__(
        self,
        parent_text: str,
        child_text: str,
        some_enum: Some_enum,
        items: List[str],
        optional_text: Optional[str] = None,
    ) -> None:
        Parent.__init__(self, parent_text)

        self.child_text = child_text
        self.some_enum = some_enum
        self.items = items
        self.optional_text = optional_text


__version__ = "V0"
__xml_namespace__ = "https://example.invalid/verif"
'''


def _sub(old: str, new: str, count: int = 1) -> Callable[[str], str]:
    def f(text: str) -> str:
        assert text.count(old) >= 1, old
        return text.replace(old, new, count)
    return f


# (name, rule of the property it breaks, mutation)
MUTATIONS: List[Tuple[str, str, Callable[[str], str]]] = [
    ("cycle", "acyclic inheritance", _sub("class Parent(DBC):", "class Parent(Child):")),
    ("unknown-base", "inheritance from existing classes", _sub("class Child(Parent):", "class Child(Parent, Nonexistent):")),
    ("duplicate-type", "unique type names", _sub("class Some_enum(Enum):", "class Parent(Enum):")),
    ("type-named-like-enum", "unique type names", _sub("class Child(Parent):", "class Some_enum(Parent):")),
    ("duplicate-property", "unique member names",
     _sub('    some_enum: Some_enum\n    """Some enumeration"""\n', '    child_text: Some_enum\n    """Some enumeration"""\n')),
    ("redeclared-inherited-property", "no re-declared inherited members",
     _sub('    child_text: str\n    """Text of the child"""\n', '    child_text: str\n    """Text of the child"""\n\n    parent_text: str\n    """Again"""\n')),
    ("duplicate-constant", "unique constant names",
     _sub("@abstract\n", 'Some_set: Set[Some_enum] = constant_set(\n    values=[Some_enum.Another_literal],\n    description="Again.",\n)\n\n\n@abstract\n')),
    ("duplicate-function", "unique function names",
     _sub("class Some_enum(Enum):", '@verification\ndef matches_something(text: str) -> bool:\n    """Check again."""\n'
                                    '    pattern = f"^again$"\n    return match(pattern, text) is not None\n\n\nclass Some_enum(Enum):')),
    ("constant-named-like-type", "unique names across types and constants", _sub("Some_set: Set[Some_enum]", "Child: Set[Some_enum]")),
    ("reserved-type-name", "non-reserved type names", _sub("class Child(Parent):", "class Class(Parent):")),
    ("reserved-prefix-I", "non-reserved type names", lambda t: t.replace("Child", "I_child")),
    ("reserved-member-name", "non-reserved member names", lambda t: t.replace("child_text", "class")),
    # the reserved names are compared case-insensitively ("to report even if the case is different", parse/_translate.py)
    ("reserved-member-name-in-another-case", "non-reserved member names", lambda t: t.replace("child_text", "model_Type")),
    ("reserved-type-name-in-another-case", "non-reserved type names", lambda t: t.replace("Child", "Verification_Error")),
    ("reserved-constant-name-in-another-case", "non-reserved constant names", lambda t: t.replace("Some_set", "Descend_once")),
    ("reserved-function-name-in-another-case", "non-reserved function names", lambda t: t.replace("matches_something", "Transform")),
    ("constructor-argument-missing", "constructor arguments match the properties",
     _sub("        items: List[str],\n        optional_text", "        optional_text")),
    ("constructor-argument-extra", "constructor arguments match the properties",
     _sub("        items: List[str],\n", "        items: List[str],\n        surplus: str,\n")),
    ("constructor-argument-order", "constructor arguments in the order of the properties",
     _sub("        child_text: str,\n        some_enum: Some_enum,\n", "        some_enum: Some_enum,\n        child_text: str,\n")),
    ("constructor-argument-type", "constructor arguments match the properties in type",
     _sub("        child_text: str,\n        some_enum", "        child_text: int,\n        some_enum")),
    ("optional-argument-without-default", "optional arguments default to None",
     _sub("        optional_text: Optional[str] = None,\n", "        optional_text: Optional[str],\n")),
    ("property-not-assigned", "constructor assigns every property", _sub("        self.items = items\n", "")),
    ("nested-optional", "no nested optionals",
     lambda t: t.replace("optional_text: Optional[str]", "optional_text: Optional[Optional[str]]")),
    ("list-of-optional", "no lists of optionals", lambda t: t.replace("items: List[str]", "items: List[Optional[str]]")),
    ("duplicate-invariant-description", "unique invariant descriptions",
     _sub('"Optional text matches")', '"Child text is not empty")')),
    ("dangling-class-reference", "resolvable documentation references", _sub(":class:`Child`", ":class:`Nonexistent`")),
    ("dangling-attribute-reference", "resolvable documentation references",
     _sub(":attr:`Child.child_text`", ":attr:`Child.nonexistent`")),
    ("empty-pattern", "non-empty pattern functions", _sub('pattern = f"^something$"', 'pattern = f""')),
    ("pattern-not-anchored-at-start", "patterns anchored with ^", _sub('pattern = f"^something$"', 'pattern = f"something$"')),
    ("pattern-not-anchored-at-end", "patterns anchored with $", _sub('pattern = f"^something$"', 'pattern = f"^something"')),
    ("inherit-from-enum", "inheritance from existing classes", _sub("class Child(Parent):", "class Child(Parent, Some_enum):")),
    ("unknown-property-type", "supported type shapes", lambda t: t.replace("some_enum: Some_enum", "some_enum: Nonexistent")),
    ("duplicate-literal-value", "unique literal values", _sub('Another_literal = "ANOTHER"', 'Another_literal = "SOME"')),
    ("duplicate-literal-name", "unique literal names", _sub('Another_literal = "ANOTHER"', 'Some_literal = "ANOTHER"')),
]


def _load(text: str) -> Tuple[bool, str]:
    from vf.models import front_end
    try:
        st, err, _ = front_end(text)
    except Exception as e:  # noqa
        return False, f"RAISED {type(e).__name__}: {e}"
    return st is not None, err or ""


def check(index: Any) -> str:
    assume(0 <= index <= len(MUTATIONS))
    for i in range(len(MUTATIONS) + 1):
        if index != i:
            continue
        if i == len(MUTATIONS):
            accepted, err = untraced(_load, BASE)
            if not accepted:
                fail("base:valid-model-is-rejected", "%s", err[:400])
            return "base-accepted"
        name, rule, mutate = MUTATIONS[i]
        accepted, err = untraced(_load, mutate(BASE))
        if err.startswith("RAISED"):
            fail("mutation:front-end-raises:" + name, "%s", err[:400])
        if accepted:
            fail("mutation:accepted-although-it-breaks-a-rule:" + name, "rule: %s", rule)
        if len(err.strip()) == 0:
            fail("mutation:rejected-without-a-report:" + name)
        return "rejected"
    raise AssertionError


def make_harness(params: Dict[str, Any]):
    lo, hi = params["lo"], params["hi"]

    def harness(index: int) -> Any:
        assume(lo <= index < hi)
        return check(index)

    return harness


def shards(tier: str) -> List[Dict[str, Any]]:
    n = len(MUTATIONS) + 1
    step = 4
    return [{"name": f"mutations {lo}..{min(lo + step, n) - 1}", "params": {"lo": lo, "hi": min(lo + step, n)},
             "budget_s": 300, "per_path_timeout": 120} for lo in range(0, n, step)]


def describe(tier: str) -> Dict[str, Any]:
    return {
        "functions": ["aas_core_codegen.parse._translate.atok_to_symbol_table", "aas_core_codegen.intermediate._translate.translate",
                      "aas_core_codegen.intermediate._hierarchy.map_symbol_table_to_ontology",
                      "aas_core_codegen.intermediate.construction.understand_all"],
        "bounds": f"one valid base model and {len(MUTATIONS)} single-rule mutations of it (one per structural rule the property names: "
                  + ", ".join(sorted({r for _, r, _ in MUTATIONS})) + "); a symbolic selector picks the mutation",
        "outside": "other base models; combinations of mutations; the converse direction (rules the front end enforces beyond the documented ones)",
        "stubs": [],
        "assumptions": ["finite family: the solver only enumerates the selector; the front end runs concretely and untraced (stated "
                        "honestly in DESIGN.md)"],
        "rule": "one shard per four mutations",
    }
