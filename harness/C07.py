"""C07 -- invariants which the front end accepts cannot fail at run time (type checking is sound w.r.t. Python)."""
from __future__ import annotations

from typing import Any, Dict, List, Optional, Tuple

from vf.common import assume, fail
from vf.sdk import Pool, Sdk

PROPERTY = "C07"
LEVEL = "model_checking"

TEMPLATE = '''"""Meta-model for verification."""
from enum import Enum
from re import match
from typing import List, Optional, Set

from icontract import invariant, DBC

from aas_core_meta.marker import verification, constant_set


@verification
def matches_something(text: str) -> bool:
    """Check that :paramref:`text` matches something."""
    pattern = f"^[a-c]+$"
    return match(pattern, text) is not None


@verification
def is_short(items: List[str]) -> bool:
    """Check that :paramref:`items` is short."""
    return len(items) <= 1


class Some_enum(Enum):
    """Represent an enumeration."""

    Some_literal = "SOME"
    Another_literal = "ANOTHER"


Some_set: Set[Some_enum] = constant_set(
    values=[Some_enum.Some_literal],
    description="Some set.",
)


class Leaf(DBC):
    """Represent a leaf."""

    value: str
    """Value"""

    def __init__(self, value: str) -> None:
        self.value = value


@invariant(lambda self: INVARIANT, "The invariant under test")
class Something(DBC):
    """Represent something."""

    text: str
    """Text"""

    count: int
    """Count"""

    flag: bool
    """Flag"""

    kind: Some_enum
    """Kind"""

    items: List[str]
    """Items"""

    leaves: List[Leaf]
    """Leaves"""

    opt_text: Optional[str]
    """Optional text"""

    opt_count: Optional[int]
    """Optional number"""

    opt_items: Optional[List[str]]
    """Optional items"""

    child: Optional[Leaf]
    """Child"""

    def __init__(
        self,
        text: str,
        count: int,
        flag: bool,
        kind: Some_enum,
        items: List[str],
        leaves: List[Leaf],
        opt_text: Optional[str] = None,
        opt_count: Optional[int] = None,
        opt_items: Optional[List[str]] = None,
        child: Optional[Leaf] = None,
    ) -> None:
        self.text = text
        self.count = count
        self.flag = flag
        self.kind = kind
        self.items = items
        self.leaves = leaves
        self.opt_text = opt_text
        self.opt_count = opt_count
        self.opt_items = opt_items
        self.child = child


__version__ = "V0"
__xml_namespace__ = "https://example.invalid/verif"
'''

# (expression, does Python evaluate it to a bool on every type-conforming instance?)
INVARIANTS: List[Tuple[str, bool]] = [
    ("len(self.text) > 0", True),
    ("len(self.opt_text) > 0", False),
    ("self.opt_text is None or len(self.opt_text) > 0", True),
    ("not (self.opt_text is not None) or len(self.opt_text) > 0", True),
    ("self.opt_text is not None or len(self.opt_text) > 0", False),
    ("not (self.opt_text is None) or len(self.opt_text) > 0", False),
    ("(self.opt_text is not None) and len(self.opt_text) > 0", True),
    ("(self.opt_text is None) and len(self.opt_text) > 0", False),
    ("not (self.opt_text is not None and self.opt_count is not None) or len(self.opt_text) > self.opt_count", True),
    ("not (self.opt_text is not None or self.opt_count is not None) or len(self.opt_text) > 0", False),
    ("not (self.opt_text is not None) or (self.opt_count is None or len(self.opt_text) > self.opt_count)", True),
    ("not (self.opt_count is not None) or len(self.opt_text) > self.opt_count", False),
    ("len(self.count) > 0", False),
    ("len(self.child) > 0", False),
    ("len(self.items) > self.count", True),
    ("self.text > 0", False),
    ("self.count > self.text", False),
    ("self.count > self.opt_count", False),
    ("self.opt_count is None or self.count > self.opt_count", True),
    ("self.text == self.count", None),
    ("self.child.value == self.text", False),
    ("not (self.child is not None) or self.child.value == self.text", True),
    ("not (self.child is None) or self.child.value == self.text", False),
    ("all(len(item) > 0 for item in self.items)", True),
    ("all(len(item) > 0 for item in self.opt_items)", False),
    ("self.opt_items is None or all(len(item) > 0 for item in self.opt_items)", True),
    ("all(len(leaf.value) > 0 for leaf in self.leaves)", True),
    ("all(len(leaf) > 0 for leaf in self.leaves)", False),
    ("all(leaf.nonexistent == self.text for leaf in self.leaves)", False),
    ("any(item == self.text for item in self.items)", True),
    ("any(item > self.count for item in self.items)", False),
    ("all(self.items[i] == self.text for i in range(0, len(self.items)))", True),
    ("all(self.items[i] == self.text for i in range(0, len(self.opt_items)))", False),
    ("all(self.items[item] == self.text for item in self.items)", False),
    ("self.kind in Some_set", True),
    ("self.text in Some_set", None),
    ("self.kind in self.count", False),
    ("self.flag and len(self.text) > 0", True),
    ("self.flag or self.count", None),
    ("self.count", None),
    ("self.nonexistent > 0", False),
    ("matches_something(self.text)", True),
    ("matches_something(self.opt_text)", False),
    ("matches_something(self.count)", False),
    ("self.opt_text is None or matches_something(self.opt_text)", True),
    ("is_short(self.items)", True),
    ("is_short(self.opt_items)", False),
    ("is_short(self.text)", None),
    ("self.count + 1 > 0", None),
    ("self.text + 1 > 0", False),
    ("not self.flag or not (self.child is not None) or len(self.child.value) > 0", True),
    ("not (self.flag and self.child is not None) or len(self.child.value) > 0", True),
    ("not (self.flag or self.child is not None) or len(self.child.value) > 0", False),
]

# why Python raises, for the candidates which are known to be ill-typed (part of the violation key)
SLUGS = {'len(self.opt_text) > 0': 'optional-used-without-narrowing', 'self.opt_text is not None or len(self.opt_text) > 0': 'narrowing-applied-to-the-wrong-branch', 'not (self.opt_text is None) or len(self.opt_text) > 0': 'narrowing-applied-to-the-wrong-branch', '(self.opt_text is None) and len(self.opt_text) > 0': 'narrowing-applied-to-the-wrong-branch', 'not (self.opt_text is not None or self.opt_count is not None) or len(self.opt_text) > 0': 'narrowing-applied-to-the-wrong-branch', 'not (self.opt_count is not None) or len(self.opt_text) > self.opt_count': 'optional-used-without-narrowing', 'self.text > 0': 'ordering-comparison-across-types', 'self.count > self.text': 'ordering-comparison-across-types', 'any(item > self.count for item in self.items)': 'ordering-comparison-across-types', 'all(self.items[i] == self.text for i in range(0, len(self.opt_items)))': 'optional-used-without-narrowing', 'self.kind in self.count': 'membership-in-a-non-container', 'matches_something(self.opt_text)': 'optional-used-without-narrowing', 'matches_something(self.count)': 'mistyped-argument-of-a-verification-function', 'is_short(self.opt_items)': 'optional-used-without-narrowing'}

_MODELS: Dict[int, Any] = {}


def model_of(index: int) -> Optional[Sdk]:
    """The model with the index-th invariant if the front end AND the type inference / Python transpilation accept it, else None."""
    if index not in _MODELS:
        from vf.models import front_end
        text = TEMPLATE.replace("INVARIANT", INVARIANTS[index][0])
        st, err, _ = front_end(text)
        accepted = st is not None
        if accepted:
            # The front end proper does not type-check invariants: type inference (intermediate/type_inference.py) runs when
            # a generator transpiles them.  "Accepted" is therefore what the project's own acceptance test says -- the smoke
            # tool (front end + schema inference + C# type and verification generation, the strictest transpiler) -- AND the
            # Python generator (the target whose semantics "evaluated as Python" refers to).
            import io
            import pathlib
            import tempfile
            import aas_core_codegen.smoke.main as smoke_main
            from aas_core_codegen.python import common as python_common, lib as python_lib
            with tempfile.TemporaryDirectory() as tmp:
                path = pathlib.Path(tmp) / "meta_model.py"
                path.write_text(text, encoding="utf-8")
                accepted = smoke_main.execute(model_path=path, stderr=io.StringIO()) == 0
            if accepted:
                verified, errors = python_lib.verify_for_types(st)
                accepted = errors is None
            if accepted:
                code, errors = python_lib.generate_verification(
                    symbol_table=verified, qualified_module_name=python_common.QualifiedModuleName("dummy"), spec_impls={})
                accepted = errors is None
        _MODELS[index] = Sdk(text, generate=False) if accepted else None
    return _MODELS[index]


def check(index: int, pool: Pool) -> str:
    sdk = model_of(index)
    if sdk is None:
        assume(False)
    cls = sdk.symbol_table.must_find_class("Something")
    # only the properties which the invariant reads are symbolic, the others are fixed (they cannot influence it)
    from harness.C08 import _self_members
    focus = sorted(_self_members(cls.invariants[0].body))
    _, src = sdk.build(cls, pool, 1, 2, symbolic_props=focus)
    pool.finish()
    assume(not pool.exhausted)
    inv = sdk.source_invariants(cls)[0]
    try:
        result = inv.condition(src)
    except IndexError:
        return "index-error"  # which no type system can exclude (admitted by the property)
    except (TypeError, AttributeError) as e:
        fail("accepted-invariant:raises-" + type(e).__name__ + ":" + SLUGS.get(INVARIANTS[index][0], "case-%d" % index),
             "%s: %r on %r", INVARIANTS[index][0], e,
             lambda: {k: (vars(v) if hasattr(v, "__dict__") and not isinstance(v, type) and not hasattr(v, "name") else v)
                      for k, v in vars(src).items()})
    if result is not True and result is not False and type(result).__name__ not in ("bool", "SymbolicBool"):
        if not isinstance(result, bool):
            fail("accepted-invariant:does-not-yield-a-boolean", "%s -> %r", INVARIANTS[index][0], result)
    return "boolean"


def make_harness(params: Dict[str, Any]):
    index = params["index"]
    model_of(index)

    def harness(s0: str, s1: str, s2: str, s3: str, s4: str, s5: str, s6: str, i0: int, i1: int, i2: int, i3: int, i4: int,
                i5: int, b0: bool, b1: bool, b2: bool, b3: bool, b4: bool, b5: bool) -> Any:
        pool = Pool([s0, s1, s2, s3, s4, s5, s6], [i0, i1, i2, i3, i4, i5], [b0, b1, b2, b3, b4, b5], 1)
        return check(index, pool)

    return harness


def shards(tier: str) -> List[Dict[str, Any]]:
    out = []
    for index, (expr, _) in enumerate(INVARIANTS):
        if model_of(index) is None:
            continue  # rejected by the front end: nothing can fail at run time
        out.append({"name": f"{index}: {expr}", "params": {"index": index}, "budget_s": 240 if tier == "quick" else 1200,
                    "per_path_timeout": 60})
    return out


def extra_checks(tier: str) -> Dict[str, Any]:
    """Book-keeping: which candidate invariants the front end accepts; a well-typed one being rejected is reported as information."""
    accepted = [expr for i, (expr, _) in enumerate(INVARIANTS) if model_of(i) is not None]
    rejected_although_fine = [expr for i, (expr, fine) in enumerate(INVARIANTS) if fine is True and model_of(i) is None]
    return {"violations": [], "evidence": {"candidate_invariants": len(INVARIANTS), "accepted_by_the_front_end": accepted,
                                           "well_typed_but_rejected (information only, not a violation)": rejected_although_fine}}


def describe(tier: str) -> Dict[str, Any]:
    return {
        "functions": ["aas_core_codegen.intermediate.type_inference.infer_for_invariant",
                      "aas_core_codegen.intermediate._translate._verify_invariants" if False else
                      "aas_core_codegen.intermediate._translate.translate", "aas_core_codegen.parse._rules.ast_node_to_our_node"],
        "bounds": f"{len(INVARIANTS)} candidate invariants (well-typed and deliberately ill-typed: len of Optional / int / class, comparison "
                  "across types, member access through Optional, any/all over Optional lists, narrowing by 'is not None' through or / "
                  "and / implication incl. the inverted forms, calls of verification functions with Optional or mistyped arguments, "
                  "unknown members) each alone on one class; for every candidate which the project's own acceptance test (smoke.main.execute: front end, schema inference, C# type and verification generation) and the Python verification generator accept, the source lambda is "
                  "evaluated by CPython on an instance whose property values are all symbolic and type-conforming (str <= 1, lists <= 2, "
                  "None exactly where Optional)",
        "outside": "other classes and invariant shapes; the check direction is soundness only (an accepted invariant never raises a "
                   "type / attribute / None error); rejecting a well-typed invariant is not a violation",
        "stubs": [],
        "assumptions": ["the meta-model source is exec'd with shims (DBC, invariant, Enum, match = re.match, constant_set)"],
        "rule": "one shard per accepted candidate invariant",
    }
