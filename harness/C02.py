"""C02 -- generators never crash on accepted meta-models (schema generators with symbolic constraints, drivers, corpus sweep)."""
from __future__ import annotations

import io
import pathlib
import tempfile
from typing import Any, Dict, List, Optional

from aas_core_codegen import infer_for_schema, specific_implementations
from aas_core_codegen.common import Stripped
from aas_core_codegen.jsonschema import main as jsonschema_main
from aas_core_codegen.xsd import main as xsd_main

from vf.common import REPO, VERIF, assume, exception_key, fail
import harness.C03 as c03
import harness.C15 as c15

from vf.models import XSD_ROOT_ELEMENT

PROPERTY = "C02"
LEVEL = "model_checking"

_JSON_SNIPPETS = {specific_implementations.ImplementationKey("schema_base.json"):
                  Stripped('{"$schema": "https://json-schema.org/draft/2019-09/schema", "title": "T", "type": "object"}')}
_XSD_SNIPPETS = {specific_implementations.ImplementationKey("root_element.xml"):
                 Stripped(XSD_ROOT_ELEMENT)}


def check_schema_generators(name: str, ops: List[int], orders: List[bool], consts: List[Any], xsd: bool = False, lo: int = -2,
                            hi: int = 8) -> str:
    """The C15 templates with symbolic comparison constants: inference and both schema generators return, never raise.
    ``xsd``: the XSD generator instead (on realized constants, see _xsd_on_realized)."""
    st, slots, originals = c15.load(name)
    for i, cmp_node in slots.items():
        len_call, const_node = originals[i]
        const_node.value = consts[i]
        cmp_node.op = c15.OPS[ops[i]]
        if orders[i]:
            cmp_node.left, cmp_node.right = len_call, const_node
        else:
            cmp_node.left, cmp_node.right = const_node, len_call
    outcome = []
    calls = [("xsd._generate", lambda: _xsd_on_realized(st, slots, originals, consts, lo, hi))] if xsd else [
        ("infer_constraints_by_class", lambda: infer_for_schema.infer_constraints_by_class(symbol_table=st)),
        ("jsonschema.generate", lambda: jsonschema_main.generate(symbol_table=st, spec_impls=_JSON_SNIPPETS,
                                                                fix_pattern=jsonschema_main.fix_pattern_for_utf16))]
    for label, call in calls:
        try:
            result, errors = call()
        except Exception as e:  # noqa
            fail("generator:raises:" + label + ":" + exception_key(e), "ops=%r len-left=%r consts=%r: %r",
                 [c15.OP_NAMES[o] for o in ops], orders, consts, e)
        if (result is None) == (errors is None):
            fail("generator:neither-result-nor-errors:" + label)
        outcome.append("ok" if errors is None else "errors")
    return "/".join(outcome)


def _xsd_on_realized(st: Any, slots: Any, originals: Any, consts: List[Any], lo: int, hi: int) -> Any:
    """xsd._generate serializes and re-parses XML (C accelerators, expat): the constants are realized first -- the solver
    enumerates them -- and the generator runs concretely."""
    from vf.common import pin_int, untraced
    concrete = [pin_int(c, lo, hi) if i in slots else 0 for i, c in enumerate(consts)]
    for i in slots:
        originals[i][1].value = concrete[i]
    return untraced(lambda: xsd_main._generate(symbol_table=st, spec_impls=_XSD_SNIPPETS))


def make_harness(params: Dict[str, Any]):
    if params["kind"] == "schema":
        name, nslots, fixed_ops = params["template"], params["slots"], params["ops"]
        c15.load(name)

        def harness(l0: bool, l1: bool, l2: bool, c0: int, c1: int, c2: int) -> Any:
            orders_in, consts = [l0, l1, l2], [c0, c1, c2]
            orders: List[bool] = []
            for i in range(3):
                if i >= nslots:
                    assume(orders_in[i] and consts[i] == 0)
                    orders.append(True)
                else:
                    assume(params["lo"] <= consts[i] <= params["hi"])
                    orders.append(True if orders_in[i] else False)
            return check_schema_generators(name, fixed_ops, orders, consts, xsd=bool(params.get("xsd")), lo=params["lo"], hi=params["hi"])

        return harness
    # drivers: the C03 harness (its oracle includes 'no exception'), with both kinds of write failure
    return c03.make_harness(params["c03"])


def shards(tier: str) -> List[Dict[str, Any]]:
    import itertools
    out = []
    for name, k in c15.SLOTS.items():
        if name.startswith("unrecognised"):
            continue
        combos = [list(t) + [0] * (3 - k) for t in itertools.product((0, 2, 4) if tier == "quick" else range(6), repeat=k)]
        if tier == "quick" and k == 3:
            combos = [c for c in combos if c in ([0, 0, 0], [0, 2, 4], [4, 4, 0], [2, 0, 4], [4, 2, 2], [0, 4, 4])]
        lo, hi = (-1, 3) if tier == "quick" else (-2, 8)
        for ops in combos:
            for xsd in (False, True):
                out.append({"name": ("xsd-generator:" if xsd else "inference+jsonschema:") + f"{name},ops=" +
                                    " ".join(c15.OP_NAMES[o] for o in ops[:k]),
                            "params": {"kind": "schema", "template": name, "slots": k, "ops": ops, "lo": lo, "hi": hi, "xsd": xsd},
                            "budget_s": 300 if tier == "quick" else 900, "per_path_timeout": 60})
    for target in c03.LANG_TARGETS + c03.SCHEMA_TARGETS:
        out.append({"name": f"driver:{target}", "params": {"kind": "driver", "c03": {"kind": "target", "target": target, "lens": [1],
                                                                                     "nested": False}},
                    "budget_s": 200 if tier == "quick" else 900, "per_path_timeout": 60})
    return out


def extra_checks(tier: str) -> Dict[str, Any]:
    """Concrete sweep: every corpus model through the REAL main.execute for all eight targets (no stubs)."""
    from aas_core_codegen import main as main_mod

    violations: List[Dict[str, Any]] = []
    models = sorted((REPO / "dev" / "test_data" / "common_meta_models").glob("*.py")) + sorted((VERIF / "models").glob("*.py"))
    if tier == "quick":
        models = [m for m in models if "aas_core_meta" not in m.name]
    n = 0
    for model in models:
        text = model.read_text(encoding="utf-8")
        for target in main_mod.Target:
            n += 1
            with tempfile.TemporaryDirectory() as tmp_text:
                tmp = pathlib.Path(tmp_text)
                (tmp / "meta_model.py").write_text(text, encoding="utf-8")
                snippets = tmp / "snippets"
                snippets.mkdir()
                for key, value in c03.real_snippets(target.value).items():
                    path = snippets / key
                    path.parent.mkdir(parents=True, exist_ok=True)
                    path.write_text(value, encoding="utf-8")
                stdout, stderr = io.StringIO(), io.StringIO()
                try:
                    rc = main_mod.execute(main_mod.Parameters(model_path=tmp / "meta_model.py", target=target, snippets_dir=snippets,
                                                               output_dir=tmp / "out"), stdout, stderr)
                except Exception as e:  # noqa
                    violations.append({"key": f"corpus:{target.value}:raises:{exception_key(e)}",
                                       "msg": f"{model.name} x {target.value}: {e!r}"[:500], "args": f"{model}|{target.value}"})
                    continue
                if rc not in (0, 1) or (rc == 0) != (stderr.getvalue() == ""):
                    violations.append({"key": f"corpus:{target.value}:status-and-stderr-disagree",
                                       "msg": f"{model.name} x {target.value}: rc={rc} stderr={stderr.getvalue()[:200]!r}",
                                       "args": f"{model}|{target.value}"})
    return {"violations": violations, "evidence": {"model_x_target_runs_through_main_execute": n, "evaluations": n, "distinct_nontrivial": n}}


def describe(tier: str) -> Dict[str, Any]:
    return {
        "functions": ["aas_core_codegen.infer_for_schema._inline.infer_constraints_by_class",
                      "aas_core_codegen.infer_for_schema._types.LenConstraint", "aas_core_codegen.jsonschema.main.generate",
                      "aas_core_codegen.xsd.main._generate"] + [f"aas_core_codegen.{t}.main.execute" for t in
                                                                c03.LANG_TARGETS + c03.SCHEMA_TARGETS] + ["aas_core_codegen.main.execute"],
        "bounds": "(a) the six length-constraint templates of C15 (own / optional / list / inheritance chain / constrained-primitive chain) with "
                  "symbolic comparison constants in [-1, 3] (thorough [-2, 8]), operand orders symbolic, comparators per shard: the real inference, "
                  "jsonschema.generate and xsd._generate must return (result | errors) and never raise; (b) every <target>/main.py driver with "
                  "a symbolic failing generator step, failing file operation (OSError or UnicodeEncodeError) or bad snippet: no exception, "
                  "status/report contract as C03; (c) concretely, every corpus model through the real main.execute for all eight targets",
        "outside": "crashes deep inside the text templating of a generator for models outside the corpus; the regex VM translation (C18); "
                   "literal functions (C19)",
        "stubs": ["(a) IR-level holes as in C15; (b) step stubs and in-memory file system as in C03; (c) none"],
        "assumptions": [],
        "rule": "two shards per template and comparator combination (inference + jsonschema symbolically; XSD on constants the solver enumerates), one per driver; one concrete evaluation per (model, target)",
    }
