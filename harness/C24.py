"""C24 -- the model cache survives crashes and concurrent runs (run.load_model)."""
from __future__ import annotations

from typing import Any, Dict, List, Tuple

from aas_core_codegen import run

from vf.cachefs import CACHE_PREFIX, Box, CacheFs, CPath, Crash, Tagged, installed
from vf.common import assume, fail

PROPERTY = "C24"
LEVEL = "model_checking"

TEXTS = ["class A:\n    pass\n", "class B:\n    pass\n"]


def crash_history(texts: List[int], crash_at: List[Any]) -> str:
    """Sequential runs of the REAL load_model; run i dies (no ``finally``) before its crash_at[i]-th cache operation."""
    fs = CacheFs()
    state = {"count": 0, "limit": None, "dead": False}

    def hook(name: str, path: str) -> None:
        if not (CACHE_PREFIX in path):
            return
        if state["dead"]:
            raise Crash()
        if state["limit"] is not None and state["count"] == state["limit"]:
            state["dead"] = True
            raise Crash()
        state["count"] += 1

    fs.hook = hook
    for i, (t, c) in enumerate(zip(texts, crash_at)):
        fs.run_id = i + 1
        fs.files["/in/meta_model.py"] = TEXTS[t]
        state["count"], state["limit"], state["dead"] = 0, c, False
        before = len(fs.ops)
        try:
            with installed(run, fs):
                result, error = run.load_model(model_path=CPath(fs, "/in/meta_model.py"), cache_model=True)  # type: ignore
        except Crash:
            continue
        where = f"run{i + 1}"
        if error is not None or result is None:
            fail("crash:later-run-fails-after-a-crashed-write:" + where, "%r", error)
        if not isinstance(result[0], Tagged) or result[0].tag != TEXTS[t]:
            fail("crash:later-run-uses-a-foreign-or-partial-entry:" + where)
        for _, name, path in fs.ops[before:]:
            if name in ("open_rb", "load") and path.endswith(".tmp"):
                fail("crash:later-run-opens-a-stray-temporary-file:" + where, "%r", path)
    for path, content in fs.files.items():
        if CACHE_PREFIX in path and not path.endswith(".tmp"):
            if not (isinstance(content, Box) and content.complete):
                fail("crash:partial-file-left-under-the-entry-name", "%r", path)
    return "ok"


def make_harness(params: Dict[str, Any]):
    n = params["runs"]

    def harness(t0: bool, t1: bool, t2: bool, c0: int, c1: int, c2: int) -> Any:
        ts, cs = [t0, t1, t2], [c0, c1, c2]
        texts: List[int] = []
        crash: List[Any] = []
        for i in range(3):
            if i >= n:
                assume(not ts[i] and cs[i] == 0)
                continue
            texts.append(1 if ts[i] else 0)
            assume(0 <= cs[i] <= 8)  # 8 = beyond the last cache operation: the run completes
            crash.append(cs[i])
        assume(crash[-1] == 8)  # the last run of a history completes (it is the observer)
        return crash_history(texts, crash)

    return harness


def shards(tier: str) -> List[Dict[str, Any]]:
    return [{"name": f"sequential-crashes,runs={n}", "params": {"runs": n}, "budget_s": 300 if tier == "quick" else 1500,
             "per_path_timeout": 60} for n in (2, 3)]


def extra_checks(tier: str) -> Dict[str, Any]:
    from vf import bmc_cache

    violations: List[Dict[str, Any]] = []
    errors: List[str] = []
    try:
        programs = bmc_cache.record()
    except Exception as e:  # noqa
        return {"violations": [], "errors": [f"recording the cache protocol failed: {e!r}"], "evidence": {}}
    evidence: Dict[str, Any] = {"protocol_recorded_from_real_load_model": {k: programs[k] for k in ("cold", "warm", "shared_entry", "shared_tmp")},
                                "bmc": []}
    n_queries = 0
    solver_s = 0.0
    for n in ((2,) if tier == "quick" else (2, 3)):
        try:
            r = bmc_cache.check(programs, n, timeout_ms=(600000 if tier == "quick" else 3600000))
        except bmc_cache.ModelError as e:
            # the code no longer has the shape the extractor understands: say so loudly, do not guess
            violations.append({"key": "bmc:protocol-not-understood", "msg": str(e), "args": programs["raw"]})
            continue
        evidence["bmc"].append({"runs": n, "steps_unrolled": r["steps"], "files": r["files"], "queries": r["queries"]})
        for q in r["queries"]:
            n_queries += 1
            solver_s += q["seconds"]
            if q["result"] not in ("sat", "unsat"):
                errors.append(f"bmc N={n} {q['property']}: solver answered {q['result']} (inconclusive)")
        for v in r["violations"]:
            rep = bmc_cache.replay(v["texts"], v["crash"], v["schedule"])
            if rep["problems"]:
                violations.append({"key": "bmc:" + v["property"], "msg": "; ".join(rep["problems"][:4]) +
                                   f" | texts={v['texts']} crash={v['crash']} schedule={v['schedule']}", "args": v})
            else:
                errors.append(f"bmc counterexample for {v['property']} did not reproduce on the real load_model: {v} -> {rep}")
    evidence["evaluations"] = n_queries
    evidence["distinct_nontrivial"] = n_queries
    evidence["bmc_solver_queries"] = n_queries
    evidence["bmc_solver_s"] = round(solver_s, 2)
    return {"violations": violations, "errors": errors, "evidence": evidence}


def replay_extra(**kwargs: Any) -> None:
    from vf import bmc_cache
    from vf.common import Violation
    rep = bmc_cache.replay(kwargs["texts"], kwargs["crash"], kwargs["schedule"])
    if rep["problems"]:
        raise Violation("bmc:" + kwargs.get("property", "replayed"), "; ".join(rep["problems"]))


def describe(tier: str) -> Dict[str, Any]:
    return {
        "functions": ["aas_core_codegen.run.load_model"],
        "bounds": "bmc: N = 2 (thorough: 2 and 3) concurrent runs, each on one of two model texts (symbolic), every interleaving of their "
                  "cache operations (one scheduling variable per step, unrolled to N x 7 steps), one symbolic crash point per run; "
                  "sx: histories of 2..3 sequential runs of the real load_model where each but the last dies before a symbolic operation "
                  "index without running its finally block",
        "outside": "file systems without atomic rename (NFS, Windows); a hostile or bit-rotten pickle; more than 3 concurrent runs; "
                   "crashes inside one file-system operation other than between open('wb') and the end of pickle.dump",
        "stubs": ["pathlib/tempfile/pickle/uuid inside run.py -> vf.cachefs (every operation logged; the hook hands over / crashes)",
                  "front end -> uninterpreted function of the model text"],
        "assumptions": ["the z3 transition system is generated on every run from the operation trace recorded from the real "
                        "load_model in the cold and the warm situation (roles: entry of the text, temporary file of the run)",
                        "counterexample schedules are replayed with real load_model calls, one thread per run, handing over at every "
                        "file operation; only reproduced problems are reported"],
        "rule": "sx: one shard per history length; bmc: one evaluation per (N, property) query",
    }
