"""C17 -- UTF-16 regex rewriting (parse/retree/_fix.py) preserves the language."""
from __future__ import annotations

import copy
from typing import Any, Dict, List, Optional, Set, Tuple

from aas_core_codegen.parse import retree

from vf.common import Violation, assume, fail, symbolic, realize, untraced
from vf import sym

PROPERTY = "C17"
LEVEL = "model_checking"

_t, _e = retree.parse(["^[a-\\U0001F600x]+\\U0001F600{2}$"])


# ---- reference matcher for retree trees over a sequence of integers (scalars or code units) --------------------
# Position sets are plain sorted lists of concrete ints (CrossHair wraps ``set`` objects into lazy structures whose
# nesting grows with every ``-`` / ``|=``).
def _add(lst: List[int], p: int) -> None:
    for x in lst:
        if x == p:
            return
    lst.append(p)


def _match_value(v: Any, seq: List[Any], starts: List[int]) -> List[int]:
    out: List[int] = []
    n = len(seq)
    if isinstance(v, retree.Char):
        o = ord(v.character)
        for p in starts:
            if p < n and seq[p] == o:
                _add(out, p + 1)
        return out
    if isinstance(v, retree.Symbol):
        if v.kind is retree.SymbolKind.DOT:
            for p in starts:
                if p < n and seq[p] != 10:
                    _add(out, p + 1)
            return out
        if v.kind is retree.SymbolKind.START:
            return [p for p in starts if p == 0]
        return [p for p in starts if p == n]
    if isinstance(v, retree.CharSet):
        for p in starts:
            if p >= n:
                continue
            x = seq[p]
            inside = False
            for r in v.ranges:
                lo = ord(r.start.character)
                hi = ord(r.end.character) if r.end is not None else lo
                if lo <= x and x <= hi:
                    inside = True
                    break
            if inside != v.complementing:
                _add(out, p + 1)
        return out
    if isinstance(v, retree.Group):
        return _match_union(v.union, seq, starts)
    raise AssertionError(type(v))


def _match_term(t: Any, seq: List[Any], starts: List[int]) -> List[int]:
    q = t.quantifier
    if q is None:
        return _match_value(t.value, seq, starts)
    cur = list(starts)
    for _ in range(q.minimum):
        cur = _match_value(t.value, seq, cur)
        if len(cur) == 0:
            return cur
    out = list(cur)
    extra = (q.maximum - q.minimum) if q.maximum is not None else len(seq) + 1
    for _ in range(extra):
        nxt = _match_value(t.value, seq, cur)
        cur = []
        for p in nxt:
            known = False
            for x in out:
                if x == p:
                    known = True
            if not known:
                cur.append(p)
                out.append(p)
        if len(cur) == 0:
            break
    return out


def _match_concat(c: Any, seq: List[Any], starts: List[int]) -> List[int]:
    cur = list(starts)
    for t in c.concatenants:
        cur = _match_term(t, seq, cur)
        if len(cur) == 0:
            break
    return cur


def _match_union(u: Any, seq: List[Any], starts: List[int]) -> List[int]:
    out: List[int] = []
    for c in u.uniates:
        for p in _match_concat(c, seq, starts):
            _add(out, p)
    return out


def fullmatch(regex: Any, seq: List[Any]) -> bool:
    n = len(seq)
    for p in _match_union(regex.union, seq, [0]):
        if p == n:
            return True
    return False


# ---- UTF-16 encoding of a scalar sequence -------------------------------------------------------------------
def utf16(scalars: List[Any]) -> List[Any]:
    out: List[Any] = []
    for n in scalars:
        if n < 0x10000:
            out.append(n)
        elif symbolic():
            hi = sym.fresh_int(0xD800, 0xDBFF)
            lo = sym.fresh_int(0xDC00, 0xDFFF)
            sym.constrain(n == 0x10000 + (hi - 0xD800) * 0x400 + (lo - 0xDC00))
            out.append(hi)
            out.append(lo)
        else:
            out.append((n - 0x10000) // 0x400 + 0xD800)
            out.append((n - 0x10000) % 0x400 + 0xDC00)
    return out


# ---- skeletons: concrete shape, symbolic code points ----------------------------------------------------------
QUANTIFIERS = {
    "none": None, "star": (0, None), "plus": (1, None), "opt": (0, 1), "two": (2, 2), "one-two": (1, 2),
}


def _q(name: str) -> Optional[retree.Quantifier]:
    v = QUANTIFIERS[name]
    return None if v is None else retree.Quantifier(non_greedy=False, minimum=v[0], maximum=v[1])


def _ch(n: Any) -> retree.Char:
    return retree.Char(chr(n), explicitly_encoded=True)


def _scalar(n: Any) -> None:
    assume(0 <= n <= 0x10FFFF)
    assume(not (0xD800 <= n <= 0xDFFF))


def build(skeleton: str, quant: str, a: int, b: int, c: int, d: int) -> retree.Regex:
    """The tree a parser-accepted pattern of this shape has (assumptions mirror the parser's checks)."""
    T = retree.Term
    if skeleton == "char":            # x{q}
        _scalar(a)
        terms = [T(_ch(a), _q(quant))]
    elif skeleton == "char-char":     # x{q}y
        _scalar(a)
        _scalar(b)
        terms = [T(_ch(a), _q(quant)), T(_ch(b), None)]
    elif skeleton == "set1":          # [a-b]{q}
        _scalar(a)
        _scalar(b)
        assume(a <= b)
        terms = [T(retree.CharSet(False, [retree.Range(_ch(a), _ch(b))]), _q(quant))]
    elif skeleton == "set2":          # [a-bc]{q}d
        _scalar(a)
        _scalar(b)
        _scalar(c)
        _scalar(d)
        assume(a <= b)
        assume(c < a or c > b)  # the parser rejects overlapping ranges
        terms = [T(retree.CharSet(False, [retree.Range(_ch(a), _ch(b)), retree.Range(_ch(c), None)]), _q(quant)),
                 T(_ch(d), None)]
    elif skeleton == "dot":           # .{q}
        terms = [T(retree.Symbol(retree.SymbolKind.DOT), _q(quant))]
    elif skeleton == "cset":          # [^a-b]{q}   (the parser admits only BMP ranges in complemented sets)
        _scalar(a)
        _scalar(b)
        assume(a <= b)
        assume(b < 0x10000)
        terms = [T(retree.CharSet(True, [retree.Range(_ch(a), _ch(b))]), _q(quant))]
    elif skeleton == "alt":           # (a|b-c){q}
        _scalar(a)
        _scalar(b)
        _scalar(c)
        assume(b <= c)
        u = retree.UnionExpr([retree.Concatenation([T(_ch(a), None)]),
                              retree.Concatenation([T(retree.CharSet(False, [retree.Range(_ch(b), _ch(c))]), None)])])
        terms = [T(retree.Group(u), _q(quant))]
    else:
        raise AssertionError(skeleton)
    return retree.Regex(retree.UnionExpr([retree.Concatenation(terms)]))


def _spans(lo: Any, hi: Any) -> Any:
    """A BMP range that contains the whole surrogate block (its end points are scalar values themselves)."""
    return lo < 0xD800 and hi > 0xDFFF


def _cause(skeleton: str, a: Any, b: Any, c: Any, d: Any) -> str:
    if skeleton in ("dot", "cset"):
        return "dot-or-complemented-set-consumes-only-one-code-unit-of-an-astral-character"
    spans = False
    if skeleton in ("set1", "set2"):
        spans = _spans(a, b)
    elif skeleton == "alt":
        spans = _spans(b, c)
    if spans:
        return "range-spanning-the-surrogate-block-matches-the-halves-of-an-astral-character"
    return f"other:{skeleton}"


def check(skeleton: str, quant: str, a: int, b: int, c: int, d: int, probe: List[int]) -> str:
    for n in probe:
        _scalar(n)
    original = build(skeleton, quant, a, b, c, d)
    fixed = copy.deepcopy(original) if not symbolic() else build(skeleton, quant, a, b, c, d)
    retree.fix_for_utf16_regex_in_place(fixed)
    m1 = fullmatch(original, probe)
    m2 = fullmatch(fixed, utf16(probe))
    if m1 != m2:
        fail(f"utf16:language-differs:{_cause(skeleton, a, b, c, d)}",
             "skeleton=%s quant=%s a=%#x b=%#x c=%#x d=%#x probe=%r original-matches=%s fixed-matches-utf16=%s",
             skeleton, quant, a, b, c, d, lambda: [hex(x) for x in probe], m1, m2)
    return "match" if m1 else "no-match"


def make_harness(params: Dict[str, Any]):
    sk, qn, shape = params["skeleton"], params["quant"], params["shape"]
    used = {"char": 1, "char-char": 2, "set1": 2, "set2": 4, "dot": 0, "cset": 2, "alt": 3}[sk]

    def harness(a: int, b: int, c: int, d: int, probe: List[int]) -> Any:
        assume(len(probe) == len(shape))
        probe = [probe[i] for i in range(len(shape))]  # a plain list of concrete length
        for i, kind in enumerate(shape):
            if kind == "b":
                assume(probe[i] < 0x10000)
            else:
                assume(probe[i] >= 0x10000)
        if used < 4:
            assume(d == 0)
        if used < 3:
            assume(c == 0)
        if used < 2:
            assume(b == 0)
        if used < 1:
            assume(a == 0)
        return check(sk, qn, a, b, c, d, probe)

    return harness


def public_replay(params: Dict[str, Any], kwargs: Dict[str, Any]) -> str:
    """Text level: render the tree, parse it with the real parser, fix, render, compare by Python's re on the probe."""
    import re
    tree = build(params["skeleton"], params["quant"], kwargs["a"], kwargs["b"], kwargs["c"], kwargs["d"])
    text = "^" + "".join(retree.render(tree)) + "$"
    parsed, err = retree.parse([text])
    if err is not None:
        return f"pattern {text!r} is NOT accepted by the parser: {err.message}"
    retree.fix_for_utf16_regex_in_place(parsed)
    fixed_text = "".join(retree.render(parsed))
    probe = "".join(chr(x) for x in kwargs["probe"])
    units = probe.encode("utf-16-le")
    unit_str = "".join(chr(int.from_bytes(units[i:i + 2], "little")) for i in range(0, len(units), 2))
    m1 = re.match(text, probe) is not None
    m2 = re.match(fixed_text, unit_str) is not None
    return f"pattern {text!r} -> {fixed_text!r}; re on probe: original={m1} fixed-on-units={m2}"


def shards(tier: str) -> List[Dict[str, Any]]:
    import itertools
    plen = 2 if tier == "quick" else 3
    budget = 150 if tier == "quick" else 1500
    quants = ["none", "plus", "opt", "two"] if tier == "quick" else list(QUANTIFIERS)
    shapes = ["".join(t) for k in range(plen + 1) for t in itertools.product("ba", repeat=k)]
    out = []
    for sk in ["char", "char-char", "set1", "set2", "dot", "cset", "alt"]:
        for qn in quants:
            for shape in shapes:
                if tier == "quick" and sk == "set2" and (qn in ("opt", "two") or shape in ("ab", "aa")):
                    continue  # the largest trees: thorough tier only
                out.append({"name": f"{sk},quantifier={qn},probe-shape={shape or '-'}",
                            "params": {"skeleton": sk, "quant": qn, "shape": shape, "probe_len": plen},
                            "budget_s": budget, "per_path_timeout": 60})
    return out


def extra_checks(tier: str) -> Dict[str, Any]:
    """Corpus, text level: jsonschema.main.fix_pattern_for_utf16 on the repository's patterns, decided by rx."""
    from vf import rx
    from vf.common import REPO
    from aas_core_codegen.jsonschema import main as jsonschema_main
    violations: List[Dict[str, Any]] = []
    n = 0
    skipped = 0
    pats = set()
    for p in sorted((REPO / "dev/test_data/intermediate_revm").glob("**/pattern.regex")):
        pats.add(p.read_text(encoding="utf-8"))
    for p in sorted((REPO / "dev/test_data/parse_retree").glob("**/*.regex")):
        pats.add(p.read_text(encoding="utf-8"))
    max_scalars = 3 if tier == "quick" else 4
    for pat in sorted(pats):
        tree, err = retree.parse([pat])
        if err is not None:
            continue
        try:
            fixed_text = jsonschema_main.fix_pattern_for_utf16(pat)
            a = rx.from_retree(tree)
            tb, errb = retree.parse([fixed_text])
            assert errb is None
            b = rx.from_retree(tb, units=True)
        except (rx.Unsupported, AssertionError):
            skipped += 1
            continue
        n += 1
        res = compare_utf16(a, b, max_scalars)
        if res is not None:
            key = "utf16:corpus-pattern-differs:" + ("dot-or-complement" if _has_dot_or_complement(tree) else "other")
            if not any(v["key"] == key for v in violations):
                violations.append({"key": key, "msg": f"pattern {pat!r} fixed {fixed_text!r} probe {res}", "args": {"pattern": pat}})
    return {"violations": violations,
            "evidence": {"corpus_patterns_compared": n, "corpus_skipped": skipped, "rx_queries": rx.STATS["queries"]}}


def _has_dot_or_complement(tree: Any) -> bool:
    found = []

    class V(retree.PassThroughVisitor):
        def visit_symbol(self, node: Any) -> None:
            if node.kind is retree.SymbolKind.DOT:
                found.append(1)

        def visit_char_set(self, node: Any) -> None:
            if node.complementing:
                found.append(1)
            super().visit_char_set(node)

    V().visit(tree)
    return bool(found)


def compare_utf16(ast_scalars: Any, ast_units: Any, max_scalars: int) -> Optional[List[int]]:
    """z3: is there a scalar string s (|s| <= max_scalars, no surrogates) with match(orig, s) != match(fixed, utf16(s))?"""
    import itertools
    import z3
    from vf import rx
    for k in range(max_scalars + 1):
        for shape in itertools.product((False, True), repeat=k):
            s = z3.Solver()
            s.set("timeout", 20000)
            ns = [z3.Int(f"n{i}") for i in range(k)]
            units: List[Any] = []
            for i, n in enumerate(ns):
                if shape[i]:
                    hi, lo = z3.Int(f"hi{i}"), z3.Int(f"lo{i}")
                    s.add(n >= 0x10000, n <= 0x10FFFF, hi >= 0xD800, hi <= 0xDBFF, lo >= 0xDC00, lo <= 0xDFFF,
                          n == 0x10000 + (hi - 0xD800) * 0x400 + (lo - 0xDC00))
                    units += [hi, lo]
                else:
                    s.add(n >= 0, n <= 0xFFFF, z3.Or(n < 0xD800, n > 0xDFFF), n != 10)
                    units.append(n)
            fa = rx.accept_formula(rx.build(ast_scalars, k), ns, "match", False)
            fb = rx.accept_formula(rx.build(ast_units, len(units)), units, "match", False)
            s.add(z3.Xor(fa, fb))
            r = rx._check(s)
            if r == "sat":
                m = s.model()
                return [m.eval(n, model_completion=True).as_long() for n in ns]
    return None


def describe(tier: str) -> Dict[str, Any]:
    s = shards(tier)
    return {
        "functions": ["aas_core_codegen.parse.retree._fix.fix_for_utf16_regex_in_place",
                      "aas_core_codegen.parse.retree._fix._FixForUTF16Regex._convert_to_surrogates",
                      "aas_core_codegen.parse.retree._fix._FixForUTF16Regex._character_literal_to_surrogates_if_necessary",
                      "aas_core_codegen.parse.retree._fix._FixForUTF16Regex._expand_char_set_to_surrogates_if_necessary",
                      "aas_core_codegen.jsonschema.main.fix_pattern_for_utf16"],
        "bounds": "7 tree skeletons (literal, literal+literal, one range, two ranges+literal, dot, complemented BMP range, "
                  f"group with alternatives) x quantifiers {sorted({x['params']['quant'] for x in s})}; all code points of the "
                  f"skeleton symbolic over [0, 0x10FFFF] minus surrogates; probe string: <= {s[0]['params']['probe_len']} symbolic "
                  "scalar values (one shard per BMP/astral shape of the probe); corpus patterns at text level by rx up to 3/4 scalars",
        "outside": "strings with lone surrogates (documented as more permissive); nested groups deeper than the skeletons; "
                   "non-greedy quantifiers (same language)",
        "stubs": [],
        "assumptions": ["trees are the ones the parser produces for accepted patterns: start <= end, ranges in a set do not "
                        "overlap, complemented sets hold BMP ranges only; the witness is re-checked at text level through "
                        "retree.parse and Python's re (public replay)",
                        "reference matcher for retree trees (position-set simulation, 60 lines) is the oracle on both sides"],
        "rule": "one shard per skeleton and quantifier; code points and probe symbolic",
    }
