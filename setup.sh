#!/bin/bash
# Builds /verif/.venv: an overlay on /venv (the repository's environment) plus CrossHair and z3 from the
# offline wheelhouse.  Idempotent.
set -eu
cd "$(dirname "$0")"
if [ ! -x .venv/bin/python ] || ! .venv/bin/python -c "import crosshair, z3, aas_core_codegen" 2>/dev/null; then
  rm -rf .venv
  /venv/bin/python -m venv .venv
  SP=$(.venv/bin/python -c "import sysconfig; print(sysconfig.get_paths()['purelib'])")
  echo "import site; site.addsitedir('/venv/lib/python3.12/site-packages')" > "$SP/_overlay.pth"
  PIP_NO_INDEX=1 .venv/bin/pip install -q --no-index --find-links /opt/veriftools/wheels crosshair-tool z3-solver
fi
.venv/bin/python -c "import crosshair, z3, aas_core_codegen; print('ok', crosshair.__version__, z3.get_version_string(), aas_core_codegen.__file__)"
