# Table consumed by gen_manifest.py.  add(pid, level, technique, text, note)
NA_PENDING = "check not built yet in this round (planned in DESIGN.md); not claimed until its evidence exists"

add("C27", "model_checking",
    "bounded symbolic execution (CrossHair/z3) of wrap_text_into_lines, path tree exhausted",
    "The real wrap_text_into_lines is executed on a symbolic text (any Unicode, bounded length) for each small width; "
    "the solver enumerates every path of the function and of the oracle; an exhausted tree means the layout rules hold for "
    "ALL texts within the bound, which no finite set of fixtures can show.",
    "Bounds: text length and widths as stated in the evidence; longer texts are outside the claim. Trusted: CrossHair's str model, z3.")

NOT_APPLICABLE.update({
    "C09": "Needs execution of generated TypeScript/Java/C++ SDKs; no symbolic engine for these languages is in the sandbox (tsc is absent as well) and their semantics cannot be encoded from this repository's code; solver-based checking of the real code cannot reach it.",
    "C22": "Quantifies over PYTHONHASHSEED, processes and directory listing order; the source of nondeterminism is the interpreter's C runtime (set/dict iteration, os.scandir), over which a solver cannot range without re-modelling all container iteration in the code base.",
})
for _p in ["C%02d" % i for i in range(1, 31)]:
    if _p not in CHECKS and _p not in NOT_APPLICABLE:
        NOT_APPLICABLE[_p] = NA_PENDING
