# Table consumed by gen_manifest.py.  add(pid, level, technique, text, note)
NA_PENDING = "check not built yet in this round (planned in DESIGN.md); not claimed until its evidence exists"

add("C27", "model_checking",
    "bounded symbolic execution (CrossHair/z3) of wrap_text_into_lines, path tree exhausted",
    "The real wrap_text_into_lines is executed on a symbolic text (any Unicode, bounded length) for each small width; "
    "the solver enumerates every path of the function and of the oracle; an exhausted tree means the layout rules hold for "
    "ALL texts within the bound, which no finite set of fixtures can show.",
    "Bounds: text length and widths as stated in the evidence; longer texts are outside the claim. Trusted: CrossHair's str model, z3.")

NOT_APPLICABLE.update({
    "C09": "Needs execution of generated TypeScript/Java/C++ SDKs; no symbolic engine for these languages is in the sandbox (tsc is absent as well) and their semantics cannot be encoded from this repository's code; solver-based checking of the real code cannot reach it.",
    "C22": "Quantifies over PYTHONHASHSEED, processes and directory listing order; the source of nondeterminism is the interpreter's C runtime (set/dict iteration, os.scandir), over which a solver cannot range without re-modelling all container iteration in the code base.",
})

add("C04", "model_checking",
    "bounded symbolic execution (CrossHair/z3) of LinenoColumner over a symbolic source text, all offsets, path tree exhausted",
    "LinenoColumner.__init__/error_message run on a symbolic text (any Unicode, bounded length, sharded by number of line breaks); every "
    "start offset is compared with the textbook 1-based (line, column). Exhaustion = holds for all texts in the bound. A concrete "
    "cross-check through the real asttokens on the repository's rejected models is reported beside it.",
    "asttokens' node->offset mapping is trusted (stubbed in the symbolic part). The column shift found here (+1 on every line after the first) was repaired.")

add("C16", "model_checking",
    "bounded symbolic execution (CrossHair/z3) of retree.parse/render/render_pointer on a symbolic pattern + z3 (QF_LIA) language equivalence of pattern and rendering",
    "The real regex parser, renderer and pointer renderer are executed on a symbolic pattern string (any Unicode, bounded length): no path may raise, "
    "errors must be positioned, accepted patterns must round-trip structurally; per accepted path the realized pattern, its rendering and the "
    "parsed tree are compared as languages (Python's own re._parser as reader) by a z3 query over all strings up to a length bound.",
    "Pattern length bound as in evidence; when a shard's budget ends before its tree is exhausted the evidence says exhaustive=false. "
    "Language equivalence is decided for one witness per path class, not for every member of the class.")

add("C19", "model_checking",
    "bounded symbolic execution (CrossHair/z3) of every string/char/bytes literal function against spec-derived literal readers, path trees exhausted",
    "Each literal function of the six targets is executed on a symbolic text (all Unicode scalar values, bounded length); the emitted literal is read "
    "back by a reader written from the language specification and must denote the original text. Hex/octal formatting is kept symbolic "
    "(division-free encoding), so one run covers all 1.1 M code points and all adjacent pairs.",
    "Readers are the oracle (Python/C++/Java/JS cross-validated against real compilers; C#/Go from the specification text only). Text length bound as in evidence.")

add("C26", "model_checking",
    "bounded symbolic execution (CrossHair/z3) of linearize_to_subroutines on solver-decoded flows with symbolic condition outcomes vs. two reference interpreters",
    "The real linearizer runs on every structured flow decodable from a bounded symbolic genome (all node kinds, else absent/empty/present, "
    "for with/without init); the structured flow and the resulting subroutines (semantics of the emitted C++ switch) are both interpreted under "
    "a symbolic sequence of condition outcomes; event traces must be equal, labels consecutive, every target defined.",
    "Flow shapes are a finite family enumerated by the solver (stated honestly); only the outcomes are genuinely symbolic. Bounds in evidence.")

add("C17", "model_checking",
    "bounded symbolic execution (CrossHair/z3) of fix_for_utf16_regex_in_place on tree skeletons with symbolic code points and a symbolic probe string; z3 (QF_LIA) language comparison for corpus patterns",
    "The real UTF-16 rewriting runs on trees whose characters and range end points are symbolic over the whole code space; a reference matcher decides "
    "match(original, s) and match(rewritten, utf16(s)) for a symbolic probe string; surrogate arithmetic is encoded division-free, so the "
    "five-way range split is decided for ALL astral ranges. Corpus patterns go through jsonschema.main.fix_pattern_for_utf16 and a z3 query per probe shape.",
    "Seven skeletons x quantifiers, probe <= 2 (3) scalars; trees mirror what the parser accepts (replayed at text level through retree.parse and re). "
    "Three open known findings ('.'/complemented sets and BMP ranges spanning the surrogate block on astral input).")

add("C15", "model_checking",
    "bounded symbolic execution (CrossHair/z3) of infer_constraints_by_class on real-front-end IRs with symbolic comparison constants, operand orders and probe length",
    "Six template meta-models go through the real front end; operator, operand order and constant of each length invariant are then symbolic "
    "(IR-level holes) and the real inference (_len, _inline merging over inheritance and constrained primitives) runs; the inferred [min,max] must admit a "
    "symbolic probe length exactly when the conjunction of the recognised comparisons does, errors exactly when that conjunction is unsatisfiable.",
    "Length constraints only (pattern / constant-set inference is name and identity bookkeeping, outside the symbolic part). Templates and bounds in evidence. "
    "The contradiction-across-inheritance crash found here was repaired.")

add("C18", "model_checking",
    "bounded symbolic execution (CrossHair/z3) of revm.translate on anchored tree skeletons with symbolic code points, bounds and probe string vs. a reference VM interpreter; z3 (QF_LIA) NFA-vs-pattern language comparison for corpus patterns",
    "The real revm.translate runs on anchored regex trees whose characters/ranges are symbolic over the whole code space; the emitted program is run by an "
    "interpreter of the documented instruction semantics on a symbolic probe string and compared with the reference tree matcher; corpus patterns "
    "are encoded as NFAs and compared with CPython's reading of the pattern by z3 for all strings up to a length bound. The generated C++ matcher is "
    "compiled (g++) and exercised on the solver's witnesses and a battery.",
    "Skeleton family and probe length as in evidence; the C++ Match loop is only exercised concretely. One open known finding (C++ matcher loops on "
    "nested nullable repetitions).")

add("C25", "model_checking",
    "bounded symbolic execution (CrossHair/z3) of read_from_directory over in-memory directory trees with symbolic names and contents, path trees exhausted per tree shape",
    "The real read_from_directory runs on a fake pathlib tree: every shape of up to 3 (4) entries, names symbolic over all of Unicode, contents symbolic or undecodable; "
    "the result must be exactly {relative POSIX path -> stripped content} over the visible files, or errors naming every offending file; never an exception. "
    "The key regular expression is encoded as an NFA reachability term read from the real compiled pattern.",
    "pathlib is replaced by vf.fakefs (validated against a real directory on every run); witnesses are replayed on a real temporary directory. Bounds in evidence.")

add("C03", "model_checking",
    "bounded symbolic execution (CrossHair/z3) of main.execute, run.load_model and all eight <target>/main.py:execute with nondeterministic step stubs: failing step index, failing file operation, bad snippet and error messages symbolic; path trees exhausted",
    "Every driver is executed with each generator step replaced by a stub that fails or succeeds according to a symbolic index and returns symbolic error messages "
    "(flat and nested); file operations may fail at a symbolic index. Asserted: no exception; exit 0 iff stderr is empty and then stdout ends with the closing line; "
    "a failed step always yields a non-zero exit and a report 'headline:' + exactly one correctly indented '* ' entry per injected error (nothing dropped, nothing duplicated).",
    "The generator steps themselves are stubbed (their result shape is derived from the real return annotations); messages satisfy write_error_report's preconditions, "
    "hold no whitespace-only lines and no line separators other than U+000A. Whether the front end finds every independent error of a model is outside.")

add("C28", "model_checking",
    "bounded symbolic execution (CrossHair/z3) of smoke.main.execute with nondeterministic stage stubs (failing stage index and error messages symbolic), path trees exhausted; concrete diff of the recorded cases",
    "smoke.main.execute runs with each of its stages (parse, imports, symbol table, translation, constraint inference, C# type verification, C# type and verification "
    "generation) replaced by a stub that fails according to a symbolic index: exit 0 iff no stage failed, exit 1 with a correctly formatted report holding exactly the "
    "injected errors otherwise, never an exception. Beside it, concretely: the five recorded cases are diffed and the verdict is compared with the real pipeline on the repository's models.",
    "The stages are stubbed in the symbolic part; the agreement with the real stages is only established on the repository's fixtures (concrete).")

add("C23", "model_checking",
    "bounded symbolic execution (CrossHair/z3) of main.main/Parameters/execute and run.load_model over symbolic histories of runs (model text and --cache_model per run) on a logged in-memory file system",
    "Histories of up to 3 (4) generator runs share one in-memory file system; per run the model text and the cache flag are symbolic; the real argv parsing, Parameters, "
    "main.execute and run.load_model run with pathlib/pickle/uuid replaced by logging stand-ins and the front end replaced by an uninterpreted function of the text. "
    "Asserted per run: without the flag no operation touches the cache directory; every write is inside the output directory (or the cache directory with the flag); "
    "status, streams, output and the symbol table handed to the generator are those of an uncached run on this run's text.",
    "Finite family (four texts, flags): the solver acts as an enumerator, stated. pickle is a box; a concrete pickle round trip of the repository's real symbol tables "
    "(lookups by name and id after unpickling) is reported beside the verdict.")

add("C24", "model_checking",
    "z3 bounded model checking of the cache protocol: transition system generated from the operation trace recorded from the real run.load_model, all interleavings of N runs and one crash point per run; counterexamples replayed on the real code with threads; plus CrossHair symbolic crash index over sequential histories",
    "The cache branch of the real load_model is executed on a logging in-memory file system (cold and warm); the recorded operations with their file roles become the program of "
    "N concurrent runs in a z3 transition system (file state absent/partial/complete + owner text, scheduling variable per step, crash point per run). z3 decides for ALL schedules and crash "
    "points within the bound that no load sees a partial or foreign entry, every completed run returns its own table without raising, and only temporary names may stay partial. "
    "A second, model-free part runs the real load_model in sequential histories where each run dies before a symbolic operation index.",
    "N = 2 (thorough 2 and 3) runs, two texts. POSIX semantics assumed (atomic rename, per-name atomic operations); a crash skips finally blocks. The extractor refuses (reports) programs it does not understand.")

add("C08", "translation_validation",
    "bounded symbolic execution (CrossHair/z3) of the generated Python SDK's verification against the meta-model's own lambdas/functions exec'd as Python, on instances whose property values are all symbolic; path trees exhausted",
    "For each model of the corpus the REAL generator emits the Python SDK, which is imported and executed symbolically: for every concrete class an instance is built from symbolic "
    "values (strings, ints, bools, enum literals, optionals, lists, nested instances) and verification.verify(instance) is compared with the multiset of (description, path) of exactly those "
    "source invariants (own, inherited, of constrained primitives, of nested instances) whose lambda - run by CPython on the same values - is False; generated pattern / transpilable "
    "verification functions are compared with the source functions; verify may raise only where Python raises.",
    "Corpus: two authored models covering the invariant forms of the property + the repository's common meta-models except aas_core_meta.v3. Large classes are checked per invariant "
    "(properties the invariant reads symbolic, others fixed). Bounds in evidence. CrossHair's regex model is trusted for pattern functions (witnesses replayed concretely).")

add("C10", "translation_validation",
    "bounded symbolic execution (CrossHair/z3) of the generated Python SDK's to_jsonable / <class>_from_jsonable on instances with symbolic property values, and of from_jsonable on valid documents with one symbolic mutation; JSON only",
    "For every concrete class of the corpus (SDK emitted by the REAL generator) an instance with symbolic values is serialized and de-serialized again (directly and through every ancestor that "
    "dispatches on modelType) and compared field by field; a valid document with ONE mutation at a symbolic position (value of a wrong JSON type, dropped key, renamed key, replaced root) may be "
    "accepted or rejected, but only DeserializationException may be raised.",
    "JSON only: the generated xmlization sits on expat, which concretizes every symbolic value, so the XML clause is NOT claimed (see DESIGN.md). Floats are multiples of 0.5, byte arrays 0..2 bytes. "
    "Two open known findings (invalid base64 / a non-ASCII string in place of base64 raise binascii.Error / UnicodeEncodeError instead of DeserializationException).")

add("C29", "translation_validation",
    "bounded symbolic execution (CrossHair/z3) of the generated Python SDK's descend_once/descend/accept*/transform*/visitors/over_X_or_empty on instance graphs whose shape is symbolic, against an oracle derived from the intermediate representation",
    "The REAL generator emits the SDK for each corpus model; for every concrete class an instance graph is built whose shape (optional children present or not, list lengths, concrete class "
    "per abstract slot, depth) is decided by symbolic values; descend_once must yield exactly the directly nested instances in property and list order, descend the pre-order, accept/transform "
    "(with and without context, and through the generic visit/transform entry points) must reach exactly the method of the concrete class, the pass-through visitor must visit every nested "
    "instance once, over_X_or_empty must equal the property or the empty iteration.",
    "Finite family of shapes: the solver mostly enumerates (stated). X_or_default accessors are not emitted by the Python generator for any corpus model, so that clause is vacuous here.")

add("C30", "translation_validation",
    "bounded symbolic execution (CrossHair/z3) of the generated X_from_str on symbolic texts (short texts and one-edit neighbours of every declared value) + concrete comparison of generated constants/sets/enumerations with the exec'd meta-model source",
    "The REAL generator emits the SDK; every primitive constant, every constant set (own literals plus the literals of its declared subsets, computed from the SOURCE, not from the IR) and every "
    "enumeration is compared with the meta-model source executed as Python; X_from_str(text) is executed on a symbolic text: it yields the literal of the declared name exactly when the text equals a "
    "declared value, else None; literal -> text -> literal is the identity.",
    "The constants clause is a finite comparison (weak solver role, stated); the symbolic part covers texts of <= 2 (3) code points and single-character edits of declared values.")

add("C11", "translation_validation",
    "bounded symbolic execution (CrossHair/z3) of a validator for the emitted JSON-Schema vocabulary on to_jsonable(instance) of the generated SDK with symbolic property values, against the generated verification; regex keywords as NFA reachability terms over UTF-16 code units",
    "The REAL jsonschema generator emits the schema and the REAL python generator the SDK for each corpus model. For every concrete class an instance with symbolic values is verified by the SDK and "
    "serialized; a validator for exactly the emitted vocabulary (cross-checked against the jsonschema library on every run) is executed symbolically on the document: an instance without verification errors "
    "must be accepted. Concretely: each schema is checked against its declared draft and every $ref resolves.",
    "Corpus as C08 plus a byte-array model. Strings ending in a line break are outside ('$' differs between Python and ECMA-262). One open known finding (byte-array lengths applied to base64 text).")

add("C12", "translation_validation",
    "same machinery as C11 in the converse direction: inferred constraints (real infer_constraints_by_class) broken by a symbolic value => the schema validator must reject; plus symbolic structural mutations of valid documents",
    "For every concrete class of the corpus and symbolic property values: if the value breaks a length / pattern / list-size constraint which the real inference attributes to the instance's class "
    "(own, inherited, in-lined constrained primitives), the schema must reject the SDK's document. A valid document with a mistyped value, a missing required property or a missing / unknown modelType "
    "at a symbolic position must be rejected as well.",
    "Exclusions of the property (descendants' tightenings of inherited list items, byte-array lengths) are excluded here, too. Corpus and bounds as C11.")

add("C20", "model_checking",
    "bounded symbolic execution (CrossHair/z3) of the docstring / documentation-comment wrappers of python, java, typescript, cpp and golang and of the C# documentation-comment renderer on a symbolic description text, against lexers of the target languages' comment / string syntax and of XML fragments; path trees exhausted",
    "Each wrapper through which description text reaches a generated file is executed on a symbolic Stripped text (all of Unicode, bounded length); a small lexer of the target language decides whether "
    "the output is exactly one docstring / one comment block (no early close, no line outside the comment, no line splice); witnesses are replayed through compile(), g++ -fsyntax-only, node --check, javac and expat. C#: the real _generate_summary_remarks runs on node trees holding the symbolic text; "
    "every line must be a '///' line and the content a well-formed XML fragment.",
    "Only the comment/docstring wrappers and the C# documentation text path are decided, not whole generated files (C19 covers literals); the reST rendering before them (docutils) is outside. Two open known findings (C++ line splice; non-XML characters in C# documentation comments).")

add("C21", "model_checking",
    "bounded symbolic execution (CrossHair/z3) of every target's naming functions on a symbolic pair of different identifiers (collision search); each colliding path yields a witness which is decided on a real meta-model by the real front end and the real target verification",
    "For each scope (two properties, two classes, class and enumeration, two literals) and each of the eight targets the real naming functions run on two symbolic identifiers; every path on which two generated names "
    "coincide is a candidate whose witness is written into a meta-model: if the real front end accepts it, every target in which the names coincide must report an error from verify_for_types / generate.",
    "Identifiers of <= 2 (4) characters over {a,b,A,B,_,1}; one witness per path class of the naming code reaches the generators (stated). Two open known findings (C#/Java literals, JSON property names).")

add("C05", "model_checking",
    "solver-enumerated family of class DAGs (CrossHair/z3 forks over edge, abstract and model-type booleans) decoded into meta-model text, run through the real front end and compared with a reference closure / stacking / in-lining computation",
    "Every DAG over 2..4 classes, every abstract/concrete and with_model_type assignment is decoded into a meta-model whose classes own one property, one invariant and a constructor calling all base constructors; "
    "the real parse + intermediate.translate run on it and ancestors, descendants, concrete descendants, is_subclass_of, stacked properties/invariants (each once, ancestors first, own last), the in-lined constructor "
    "(each property assigned exactly once), interfaces, the topological order and the propagation of with_model_type are compared with an independent reference.",
    "Finite family: the solver acts as an exhaustive enumerator and the front end runs concretely (stated honestly in DESIGN.md). Declaration order = index order; no methods.")

add("C06", "model_checking",
    "solver-enumerated family (CrossHair/z3 selector) of single-rule mutations of a valid meta-model, each run through the real front end",
    "One valid base model (abstract parent with model type, child with constructor, enumeration, constant set, pattern function, documentation references) and one mutation per structural rule "
    "named by the property (cycle, unknown base, duplicate / reserved names, re-declared member, constructor argument missing / extra / reordered / retyped / without None default, nested optional, list of "
    "optionals, duplicate invariant description, dangling references, empty / un-anchored pattern, ...): the base must be accepted, every mutation rejected with a report and without an exception.",
    "Finite family: the solver only enumerates the selector and the front end runs concretely (stated honestly). One base model; no combinations of mutations.")

add("C07", "model_checking",
    "bounded symbolic execution (CrossHair/z3) of the meta-model's own invariant lambdas (exec'd source) on symbolic type-conforming instances, for every candidate invariant that the real front end, smoke tool and Python generator accept",
    "53 candidate invariants (well-typed and deliberately ill-typed) are each put alone on a class with str/int/bool/enum/list/Optional/nested properties; for every candidate accepted by the project's own acceptance "
    "test (smoke.main.execute = front end + schema inference + C# type and verification generation) and by python.lib.generate_verification, the source lambda is evaluated by CPython on an instance whose property "
    "values are all symbolic and type-conforming (None exactly where Optional): TypeError / AttributeError is a violation, IndexError is admitted.",
    "Soundness direction only. 'Accepted' is read as smoke + Python generation because the front end proper runs no type inference (see DESIGN.md). Six open known findings (classes of ill-typed invariants which are accepted).")

add("C01", "model_checking",
    "solver-enumerated families (CrossHair/z3 over small integer genomes) of meta-model texts around every construct with positional/keyword arguments, each run through the real run.load_model",
    "Small symbolic integers select the construct (constant_set / constant_* / @invariant / class decorators / type annotations / constructor shapes / base-class lists / verification-function bodies / descriptions with every reference role and reST construct at five positions), the number of "
    "arguments and each argument form; the decoded text goes through the REAL run.load_model, which must return a symbol table or a non-empty error report and never raise.",
    "Finite families: the solver acts as an exhaustive enumerator and the front end runs concretely (stated honestly in DESIGN.md). Texts outside the families, and symbolic pattern strings (C16), are outside.")

add("C02", "model_checking",
    "bounded symbolic execution (CrossHair/z3): schema inference + jsonschema/xsd generation on real-front-end IRs with symbolic length-comparison constants; all <target>/main.py drivers with symbolic failing step / failing file operation; concrete sweep of the corpus through main.execute",
    "The real infer_constraints_by_class, jsonschema.generate and xsd._generate run on the C15 templates whose comparison constants and operand orders are symbolic: each must return a result or errors and never raise. "
    "Every driver runs with a symbolic failing generator step, a symbolic failing file operation (OSError or UnicodeEncodeError) or a bad snippet: no exception and the C03 contract. Concretely, every corpus model goes through the real main.execute for all eight targets.",
    "Crashes inside the text templating of a generator for models outside the corpus are outside; regex VM translation is C18, literals C19.")

add("C13", "translation_validation",
    "z3 (QF_LIA) language inclusion L(meta-model pattern) subset of L(XSD pattern) over XML characters up to a length bound, XSD side read by a strict XML-Schema regex reader from the REAL _translate_pattern output; CrossHair/z3 symbolic execution of the real xsd._generate for length / list-size facets",
    "Patterns: for every corpus pattern and a grammar-enumerated family the real xsd.main._translate_pattern output must be a well-formed XML Schema regular expression and must accept every string (XML characters, no line breaks, "
    "length <= 4 / 7) which CPython's reading of the original pattern accepts -- decided by z3 for all strings at once. Facets: the real xsd._generate runs on templates with symbolic comparison constants; "
    "minLength/maxLength/minOccurs/maxOccurs read from the emitted XSD must admit every length the invariants admit.",
    "Patterns and facets only: validity of the XSD as a whole and validation of whole SDK-written documents are NOT claimed (no XSD validator / XML parser is symbolically executable here). Three open known findings.")

add("C14", "translation_validation",
    "same machinery as C13 in the converse direction: L(XSD pattern) subset of L(meta-model pattern) by z3; facets admit only lengths the own-class invariants admit (symbolic constants)",
    "Converse of C13 for constraints a class declares itself or takes from a constrained primitive: every string the XSD pattern accepts is accepted by the meta-model pattern, every length the facets admit is admitted by the invariants.",
    "The clause about unknown / misplaced / missing elements is NOT claimed (needs an XSD validator). One open known finding.")
